"""C09 - every one-hot event encoding is a bijection onto its class range (DESIGN.md §4 C09)."""
import ast

from sa import fold, nf, iface, roles, cov, astutil as U
from sa.roles import Canon
from sa.loader import norm_text, dotted
from sa.selftest import Mutant

PROPERTY = 'C09'
ME = 'note_seq/melody_encoder_decoder.py'
CE = 'note_seq/chords_encoder_decoder.py'
DE = 'note_seq/drums_encoder_decoder.py'
PE = 'note_seq/performance_encoder_decoder.py'
PL = 'note_seq/performance_lib.py'
PC = 'note_seq/performance_controls.py'
LEVEL_TEXT = (
    'Structural necessary conditions for decode(encode(e)) = canonical(e) and encode(decode(i)) = i, decided from the source for '
    'all configurations: every OneHotEncoding subclass implements the four interface members; for each encoding the affine pieces of '
    'encode_event and decode_event are mutual inverses after substitution (rational normal form), guards split the index range where '
    'the pieces meet, and num_classes equals the largest label + 1 / the sum of the block widths; PerformanceOneHotEncoding\'s three '
    'methods walk the same range list with one width expression; the chord name table has pitch class i at index i and the decoded '
    'suffixes denote the triad quality that is encoded at that offset; drum classes are pairwise disjoint and non-empty (else the '
    'inverse map is ambiguous); velocity_to_bin and velocity_bin_to_velocity share one bin-size function and are a floor-division / '
    'multiplication pair around MIN_MIDI_VELOCITY. Exhaustive enumeration of indices is running the code and is not done.')
LEVEL_NOTE = 'Trusted: constant folding; integer arithmetic of Python (// and * exact); the pitch-class name oracle.'
TECHNIQUE = 'static analysis: interface conformance over the class hierarchy, inverse-pair recognition in rational normal form after substitution, shared-width agreement, folded-table checks against an oracle, per-object state (no class-body mutable written through self)'
DESIGN_REF = 'DESIGN.md section 4 (C09)'
EXPLANATION = ('IFACE over OneHotEncoding; INV inverse pieces for melody, chords, performance, note density; WIDTH num_classes agreement; TAB pitch '
               'class names, chord suffix qualities, drum table disjointness, MIDI bounds; VEL velocity bin pair.')
TRUSTED = ['integer // and * are exact', 'pitch-class name oracle', 'constant folding']
NOT_DECIDED = ['exhaustive index enumeration (that is execution)', 'monotonicity of velocity binning as a value fact']
ASSUMPTIONS = ['note-density bin boundaries are strictly increasing and positive (constructor argument)']
# rules whose verdict does not depend on how the statements are arranged (semantic analyses); all other rules are shape rules:
# when one of those fails in a function that was restructured relative to reference/signatures.json the verdict is "cannot decide"
ROBUST = ('TAB',)
FLOORS = {'IFACE': 24, 'INV': 12, 'WIDTH': 6, 'TAB': 20, 'VEL': 3}

NAMES = {'C': 0, 'D': 2, 'E': 4, 'F': 5, 'G': 7, 'A': 9, 'B': 11}


def E(t):
  return U.E(t)


def name_pc(s):
  pc = NAMES[s[0]]
  for ch in s[1:]:
    pc += 1 if ch == '#' else -1
  return pc % 12


def run(ctx):
  base = ctx.cls('encoder_decoder:OneHotEncoding')
  subs = iface.check_interface(ctx, base, 'IFACE/one-hot')
  ctx.require(len(subs) >= 6, 'only %d concrete OneHotEncoding subclasses found' % len(subs))
  # location-independent: an encoding object's tables belong to the object.  A dict / list bound once in the class body and filled in
  # place through self (a memo of range offsets, say) is shared by every instance: the second encoding with another pitch range or
  # shift count reads the first one's offsets.
  from sa import state as _state
  for c_ in [base] + list(subs):
    _state.check_instance_state(ctx, c_, 'STATE/per-object', mro=ctx.P.mro(c_)[1:] if hasattr(ctx.P, 'mro') else None)
  from sa import pitfalls
  scope = []
  for c in [base] + list(subs):
    for q, fi in sorted(c.module.all_functions.items()):
      if q.startswith(c.qualname + '.') and fi not in scope:
        scope.append(fi)
  pitfalls.apply(ctx, 'PITFALL', scope, ['narrowing-cast'], {
      'narrowing-cast': 'class indices beyond the kept bits decode to the event of a smaller index, so decoding is not injective and encode(decode(i)) != i'})
  for q in ('chord_symbol_root', 'chord_symbol_bass'):
    fi_ = ctx.func('chord_symbols_lib:' + q)
    v_, why_ = pitfalls.mod_reduced(fi_)
    ctx.ob('PITCHCLASS/reduced', fi_, fi_.node, v_ == pitfalls.OK, why_, construct='%s returns a pitch class in 0..11' % q, definite=(v_ == pitfalls.BAD),
           unknown=why_ if v_ == pitfalls.UNKNOWN else None)
  quality_needs_all_degrees(ctx, 'CHORD/quality-needs-all-degrees')
  from rules import C15 as _c15      # the chord encodings read root and quality through chord_symbols_lib: a symbol of the grammar must not die with KeyError there
  _c15.regex_groups_into_tables(ctx, 'CHORD/regex-group-into-table')
  _c15.pitch_class_wraps_both_ways(ctx, 'CHORD/wrap-both-ways')
  _c15.alteration_accumulates(ctx, 'CHORD/alteration-accumulates')
  event_validator_admits(ctx)
  chord_labels_below_num_classes(ctx)
  melody(ctx)
  chords(ctx)
  performance(ctx)
  density(ctx)
  drums(ctx)
  velocity(ctx)


# (event type, value): events that the performance encodings decode for configurations the library itself uses (pitches 0..127,
# shifts and durations up to the 1000 steps NotePerformance defaults to, velocity bins 1..127): the event class must accept them
ADMITTED_EVENTS = [('NOTE_ON', 0), ('NOTE_ON', 127), ('NOTE_OFF', 0), ('NOTE_OFF', 127), ('TIME_SHIFT', 1), ('TIME_SHIFT', 100), ('TIME_SHIFT', 101),
                   ('TIME_SHIFT', 1000), ('DURATION', 1), ('DURATION', 1000), ('VELOCITY', 1), ('VELOCITY', 127)]


def event_validator_admits(ctx, rule='EVENT/validator-admits'):
  """decode_event builds a PerformanceEvent for every class index; the event class's validator must not refuse an event that lies in
  the range an encoding was configured with.  The validator is evaluated path by path on ADMITTED_EVENTS."""
  from sa import pathval, scenario
  ci = ctx.cls('performance_lib:PerformanceEvent')
  val = next((m for m in ci.methods.values() if any(d.endswith('.validator') for d in m.decorators)), None)
  if val is None:
    ctx.ob(rule, ci, ci.node, True, 'PerformanceEvent has no validator: every event is accepted', construct='PerformanceEvent accepts the decodable events')
    return
  consts = {}
  for st in ci.node.body:
    if isinstance(st, ast.Assign) and len(st.targets) == 1 and isinstance(st.targets[0], ast.Name) and isinstance(st.value, ast.Constant):
      consts['PerformanceEvent.' + st.targets[0].id] = st.value
      consts['self.' + st.targets[0].id] = st.value
  fd = fold.Folder(ctx.P, ctx.S)
  try:
    ps = pathval.paths(val.node.body, effects=True, opaque=True, strict_exits=True)
  except pathval.PathError as e:
    why = 'cannot classify: the validator is not a straight-line block (%s)' % e
    ctx.ob(rule, val, val.node, False, why, construct='PerformanceEvent accepts the decodable events', unknown=why)
    return
  for tname, value in ADMITTED_EVENTS:
    cons = 'PerformanceEvent(%s, %d) is accepted' % (tname, value)
    if 'PerformanceEvent.' + tname not in consts:
      why = 'cannot classify: PerformanceEvent.%s is not a literal class constant' % tname
      ctx.ob(rule, val, val.node, False, why, construct=cons, unknown=why)
      continue
    env = dict(consts)
    env['self.event_type'] = consts['PerformanceEvent.' + tname]
    env['self.event_value'] = ast.Constant(value=value)
    verdict, stuck = None, None
    for conds, _e, end in ps:
      taken = True
      for t, pol in conds:       # in order: a later condition is only evaluated on a path whose earlier ones hold
        tx = pathval.subst(t, env)
        for nm in set(n.id for n in ast.walk(tx) if isinstance(n, ast.Name)):
          if nm in val.module.assigns:        # the module's own constants (pianoroll_lib binds MIN_MIDI_PITCH to another value)
            try:
              k = fd.module_const(val.module, nm)
            except Exception:      # pylint: disable=broad-except
              continue
            if isinstance(k, (int, float)) and not isinstance(k, bool):
              tx = pathval.subst(tx, {nm: ast.Constant(value=k)})
        v = scenario.fold_numeric(tx, {})
        if v is None:
          stuck, taken = norm_text(t), None
          break
        if bool(v) != pol:
          taken = False
          break
      if taken is None:
        break
      if taken:
        verdict = end
        break
    if verdict is None:
      why = 'cannot classify: %s cannot be evaluated for %s = %d' % (stuck or 'no path of the validator', tname, value)
      ctx.ob(rule, val, val.node, False, why, construct=cons, unknown=why)
    else:
      ok = verdict != 'raise'
      ctx.ob(rule, val, val.node, ok, 'accepted' if ok else
             'the validator refuses PerformanceEvent(%s, %d): an encoding configured with a range that contains it (max_shift_steps / max_duration_steps are constructor arguments, '
             'not constants of the event class) cannot decode the class index of that event' % (tname, value), construct=cons, definite=True)


def _interval(ctx, mi, e, fd):
  """(lo, hi) of an integer expression built from constants, + and * of non-negative parts, a chord root (0..11) and the position
  of a member in a module-level literal table - or None."""
  c = U.const_value(e)
  if isinstance(c, int) and not isinstance(c, bool):
    return (c, c)
  if isinstance(e, (ast.Name, ast.Attribute)):
    nm = e.id if isinstance(e, ast.Name) else e.attr
    try:
      k = fd.module_const(mi, nm) if isinstance(e, ast.Name) else nf.GLOBAL_CONSTS.get(nm)
    except Exception:      # pylint: disable=broad-except
      k = None
    return (k, k) if isinstance(k, int) and not isinstance(k, bool) else None
  if isinstance(e, ast.Call):
    d = dotted(e.func) or ''
    if d.split('.')[-1] in ('chord_symbol_root', 'chord_symbol_bass'):
      return (0, 11)       # PITCHCLASS/reduced establishes it
    if isinstance(e.func, ast.Attribute) and e.func.attr == 'index' and isinstance(e.func.value, ast.Name) and e.func.value.id in mi.assigns and len(mi.assigns[e.func.value.id]) == 1:
      tab = mi.assigns[e.func.value.id][0]
      if isinstance(tab, (ast.Tuple, ast.List)):
        return (0, len(tab.elts) - 1)
    return None
  if isinstance(e, ast.BinOp) and isinstance(e.op, (ast.Add, ast.Mult)):
    a, b = _interval(ctx, mi, e.left, fd), _interval(ctx, mi, e.right, fd)
    if a is None or b is None:
      return None
    if isinstance(e.op, ast.Add):
      return (a[0] + b[0], a[1] + b[1])
    if a[0] < 0 or b[0] < 0:
      return None
    return (a[0] * b[0], a[1] * b[1])
  return None


def chord_labels_below_num_classes(ctx, rule='CHORD/label-below-num-classes'):
  """encode_event of the two chord one-hot encodings: on every returning path (through one helper of the module, if the method
  delegates) the largest label that can be returned is smaller than num_classes."""
  from sa import pathval
  mi = ctx.P.module('chords_encoder_decoder')
  fd = fold.Folder(ctx.P, ctx.S)
  for cname in ('MajorMinorChordOneHotEncoding', 'TriadChordOneHotEncoding'):
    ci = mi.classes[cname]
    enc, ncm = ci.methods['encode_event'], ci.methods['num_classes']
    cons = '%s.encode_event returns labels below num_classes' % cname
    nret = [s_.value for s_ in ncm.node.body if isinstance(s_, ast.Return) and s_.value is not None]
    ncl = _interval(ctx, mi, nret[0], fd) if len(nret) == 1 else None
    rets, why, narrowed = [], None, []
    try:
      for conds, env, end in pathval.paths(enc.node.body, opaque=True, strict_exits=True):
        if end != 'return' or pathval.RETURN not in env:
          continue
        r = env[pathval.RETURN]
        g = mi.functions.get(r.func.id) if isinstance(r, ast.Call) and isinstance(r.func, ast.Name) else None
        if g is None:
          rets.append(r)
          continue
        params = g.params()
        sub = dict(zip(params, r.args))
        for conds2, env2, end2 in pathval.paths(g.node.body, opaque=True, strict_exits=True):
          if end2 == 'return' and pathval.RETURN in env2:
            r2 = pathval.subst(env2[pathval.RETURN], sub)
            # the position of a member in a table is bounded by the table's length - unless the path admits only part of the table
            # (a test against a slice or a filtered copy of it): then the bound is not read here
            tabs = set(x.func.value.id for x in ast.walk(r2) if isinstance(x, ast.Call) and isinstance(x.func, ast.Attribute) and x.func.attr == 'index' and isinstance(x.func.value, ast.Name))
            partial = [t for t, _p in conds2 for x in ast.walk(t) if isinstance(x, ast.Name) and x.id in tabs and
                       not (isinstance(t, ast.Compare) and len(t.ops) == 1 and isinstance(t.ops[0], (ast.In, ast.NotIn)) and t.comparators[0] is x)]
            if partial:
              narrowed.append((r2, norm_text(partial[0])))
            else:
              rets.append(r2)
    except pathval.PathError as e:
      why = 'cannot classify: %s is not a block of assignments, tests and returns (%s)' % (enc.qualname, e)
    for r2, t2 in narrowed:
      why2 = 'cannot classify: the label %s is returned on a path that admits only part of the table (%s)' % (norm_text(r2)[:60], t2[:60])
      ctx.ob(rule, enc, enc.node, False, why2, construct=cons + ' (%s)' % norm_text(r2)[:40], unknown=why2)
    if why is None and (ncl is None or not (rets or narrowed)):
      why = 'cannot classify: num_classes of %s is not a constant expression, or encode_event has no returning path' % cname
    if why is not None:
      ctx.ob(rule, enc, enc.node, False, why, construct=cons, unknown=why)
      continue
    for r in rets:
      iv = _interval(ctx, mi, r, fd)
      if iv is None:
        why = 'cannot classify: the range of the label %s is not determined' % norm_text(r)[:80]
        ctx.ob(rule, enc, enc.node, False, why, construct=cons + ' (%s)' % norm_text(r)[:40], unknown=why)
        continue
      ok = 0 <= iv[0] and iv[1] < ncl[0]
      ctx.ob(rule, enc, enc.node, ok, 'label %s lies in [%d, %d], num_classes is %d' % (norm_text(r)[:50], iv[0], iv[1], ncl[0]) if ok else
             '%s.encode_event can return %s, which ranges over [%d, %d], while num_classes is %d: a chord it accepts gets a label that decode_event and the model do not have' % (
                 cname, norm_text(r)[:70], iv[0], iv[1], ncl[0]), construct=cons + ' (%s)' % norm_text(r)[:40], definite=True)


def _fold_env(ctx, mi, names):
  fd = fold.Folder(ctx.P, ctx.S)
  env = {}
  for n in names:
    try:
      v = fd.module_const(mi, n)
      if isinstance(v, (int, float)):
        env[n] = ast.Constant(value=int(v) if float(v).is_integer() else v)
    except fold.Unknown:
      pass
  return env


# ------------------------------------------------------------------ melody
def quality_needs_all_degrees(ctx, rule):
  """Location-independent: the chord encoders raise ChordEncodingError for every chord that is not a plain triad, and they decide
  that with chord_symbol_quality: a chord that lacks its root, third or fifth has quality "other".  Reading a degree with a
  numeric default (`degrees.get(5, 0)`) gives a *missing* degree the alteration of an unaltered one, so a fifthless chord is
  encoded as if it were a full triad and does not come back from the decoder."""
  fi = ctx.func('chord_symbols_lib:chord_symbol_quality')
  fn = fi.node
  cons = 'a chord without a root, third or fifth has no triad quality'
  bad = [c for c in U.calls_in(fn) if isinstance(c.func, ast.Attribute) and c.func.attr == 'get' and len(c.args) == 2 and U.const_value(c.args[0]) in (1, 3, 5) and
         U.const_value(c.args[1]) is not None]
  if bad:
    ctx.ob(rule, fi, bad[0], False, '%s reads degree %s with the default %s: a chord from which that degree was removed (no%s) is classified like a chord that has it unaltered, so the encoders '
           'accept it as a triad and decode(encode(chord)) is a different chord' % (norm_text(bad[0]), U.const_value(bad[0].args[0]), U.const_value(bad[0].args[1]), U.const_value(bad[0].args[0])),
           construct=cons, definite=True)
    return
  seen = set()
  for n in ast.walk(fn):
    if isinstance(n, ast.Compare) and len(n.ops) == 1 and isinstance(n.ops[0], (ast.In, ast.NotIn)) and U.const_value(n.left) in (1, 3, 5):
      seen.add(U.const_value(n.left))
    if isinstance(n, ast.Call) and isinstance(n.func, ast.Attribute) and n.func.attr == 'get' and len(n.args) == 1 and U.const_value(n.args[0]) in (1, 3, 5):
      seen.add(U.const_value(n.args[0]))        # None for a missing degree: equal to no alteration
    if isinstance(n, ast.Call) and dotted(n.func) in ('all', 'any'):
      for x in ast.walk(n):
        if isinstance(x, (ast.Tuple, ast.List, ast.Set)) and sorted(U.const_value(e) for e in x.elts if U.const_value(e) is not None) == [1, 3, 5]:
          seen |= {1, 3, 5}
  if seen == {1, 3, 5}:
    ctx.ob(rule, fi, fn, True, 'the presence of degrees 1, 3 and 5 is tested', construct=cons)
  else:
    why = 'cannot classify: chord_symbol_quality tests the presence of degrees %s only' % sorted(seen)
    ctx.ob(rule, fi, fn, False, why, construct=cons, unknown=why)


def melody_scenarios(ctx, rule):
  """Location-independent, finite scenarios: MelodyOneHotEncoding maps the two special events to indices 0 and 1 and pitch p of
  [min_note, max_note) to p - min_note + 2, and decode_event is its inverse.  Both functions are read path by path
  (sa.pathval); for three ranges ((0, 128), (1, 2), (48, 84)) and the events -2, -1, min_note, min_note + 1, max_note - 1 the
  value returned on the path whose conditions hold is folded and compared; the same for the indices 0, 1, 2 and the last one."""
  from sa import pathval, scenario
  ci = ctx.cls('melody_encoder_decoder:MelodyOneHotEncoding')
  enc, dec = ci.methods['encode_event'], ci.methods['decode_event']

  def value(m, arg, val, lo, hi):
    try:
      ps = [(c, e) for c, e, end in pathval.paths(m.node.body, opaque=True) if end == 'return' and pathval.RETURN in e]
    except pathval.PathError as e_:
      return ('unknown', str(e_))
    sub = {m.params()[1]: nf.rat(E(repr(val))), 'self._min_note': nf.rat(E(repr(lo))), 'self._max_note': nf.rat(E(repr(hi)))}
    got = []
    for conds, env in ps:
      r = scenario.tv_all(conds, sub) if conds else True
      if r is None:
        return ('unknown', 'a condition cannot be evaluated')
      if r:
        got.append(scenario.fold_numeric(env[pathval.RETURN], sub))
    if len(got) != 1 or got[0] is None:
      return ('unknown', '%d return paths apply' % len(got))
    return ('value', got[0])
  for lo, hi in ((0, 128), (1, 2), (48, 84)):
    for event, want in ((-2, 0), (-1, 1), (lo, 2), (lo + 1, 3), (hi - 1, hi - lo + 1)):
      if not (event < 0 or lo <= event < hi):
        continue
      for m, arg, val, w, what in ((enc, 'event', event, want, 'encode_event(%d)' % event), (dec, 'index', want, event, 'decode_event(%d)' % want)):
        kind, v = value(m, arg, val, lo, hi)
        cons = 'MelodyOneHotEncoding(%d, %d): %s == %d' % (lo, hi, what, w)
        if kind == 'unknown':
          why = 'cannot classify: %s' % v
          ctx.ob(rule, m, m.node, False, why, construct=cons, unknown=why)
        else:
          ctx.ob(rule, m, m.node, v == w, '%s = %s' % (what, v) if v == w else
                 'with min_note %d and max_note %d, %s returns %s, not %d: %s' % (lo, hi, what, v, w, 'two events share an index / an index is never produced, so encode and decode are no longer inverse'),
                 construct=cons, definite=True)


def melody(ctx):
  melody_scenarios(ctx, 'INV/melody-scenarios')
  ci = ctx.cls('melody_encoder_decoder:MelodyOneHotEncoding')
  enc, dec, nc = ci.methods['encode_event'], ci.methods['decode_event'], ci.methods['num_classes']
  env0 = _fold_env(ctx, ci.module, ['NUM_SPECIAL_MELODY_EVENTS'])
  ctx.ob('TAB/melody-specials', ci, ci.node, norm_text(env0.get('NUM_SPECIAL_MELODY_EVENTS', ast.Constant(value=None))) == '2', 'two special events (no-event, note-off)',
         construct='NUM_SPECIAL_MELODY_EVENTS == 2')
  ev, ix = enc.params()[1], dec.params()[1]
  ep = [p for p in iface.pieces(enc.node)]
  dp = [p for p in iface.pieces(dec.node)]
  ctx.require(len(ep) == 2 and len(dp) == 2, 'MelodyOneHotEncoding: expected two encode and two decode pieces (found %d/%d)' % (len(ep), len(dp)))
  # each encode piece has exactly one inverse decode piece
  used = set()
  for (g, e, rn) in ep:
    inv = []
    for j, (g2, d, rn2) in enumerate(dp):
      try:
        r = nf.Builder(dict(env0, **{ix: e})).rat(d)
        if r.equals(nf.rat(E(ev))):
          inv.append(j)
      except nf.NFError:
        pass
    ok = len(inv) >= 1
    ctx.ob('INV/melody', enc, rn, ok, 'decode(%s) == event' % norm_text(e) if ok else 'no decode piece inverts the encode piece %s' % norm_text(e), construct='melody encode piece %s' % norm_text(e))
    used |= set(inv)
  ctx.ob('INV/melody', dec, dec.node, len(used) == len(dp), 'every decode piece is the inverse of an encode piece' if len(used) == len(dp) else 'a decode piece inverts no encode piece',
         construct='melody decode pieces all used')
  # the decode guard separates the images of the two encode pieces
  g = dp[0][0][0] if dp[0][0] else None
  ok = False
  if g is not None:
    try:
      c = nf.compare_nf(g[0], env0, g[1])
      lo = nf.Builder(dict(env0, **{ev: E('-1')})).rat(ep[0][1])              # largest special
      hi = nf.Builder(dict(env0, **{ev: E('self._min_note')})).rat(ep[1][1])    # smallest note
      thr = nf.Builder(env0).rat(E(ix)) - c[0] if c and c[1] == '<' else None
      ok = thr is not None and (lo + nf.rat(E('1'))).equals(thr) and hi.equals(thr)
    except nf.NFError:
      ok = False
  ctx.ob('INV/melody-guard', dec, dec.node, ok, 'indices below NUM_SPECIAL decode to special events, the rest to pitches' if ok else
         'the decode guard does not fall between the image of the special events and the image of the notes', construct='melody decode guard')
  # num_classes = label of (max_note - 1) + 1
  r = [s for s in U.walk_stmts(nc.node) if isinstance(s, ast.Return)]
  ok = False
  if len(r) == 1:
    try:
      exp = [U.expand_locals(enc.node, p_[1], at=p_[2]) for p_ in ep]
      note_piece = next((x for x in exp if '_min_note' in norm_text(x)), exp[1])      # the piece that encodes pitches, wherever it stands
      top = nf.Builder(dict(env0, **{ev: E('self._max_note - 1')})).rat(note_piece) + nf.rat(E('1'))
      ok = nf.Builder(env0).rat(r[0].value).equals(top)
    except nf.NFError:
      ok = False
  ctx.ob('WIDTH/melody', nc, r[0] if r else nc.node, ok, 'num_classes = label(max_note - 1) + 1' if ok else 'num_classes is not the largest label + 1', construct='melody num_classes', depends=[enc])
  # encode rejects out-of-range events
  guards = [norm_text(s.test) for s in enc.node.body if isinstance(s, ast.If) and any(isinstance(x, ast.Raise) for x in s.body)]
  ok = len(guards) >= 3
  ctx.ob('INV/melody-domain', enc, enc.node, ok, 'events below -NUM_SPECIAL, below min_note or >= max_note are rejected' if ok else 'encode_event does not reject all out-of-range events (%s)' % guards,
         construct='melody encode domain checks')


# ------------------------------------------------------------------ chords
def chords(ctx):
  mi = ctx.P.module('chords_encoder_decoder')
  fd = fold.Folder(ctx.P, ctx.S)
  names = fold.need(lambda: fd.module_const(mi, '_PITCH_CLASS_MAPPING'), '_PITCH_CLASS_MAPPING')
  node = mi.assigns['_PITCH_CLASS_MAPPING'][0]
  ok = len(names) == 12
  ctx.ob('TAB/pitch-class-names', mi, node, ok, '12 names' if ok else '%d names' % len(names), construct='_PITCH_CLASS_MAPPING has 12 entries')
  for i, n in enumerate(names):
    ok = name_pc(n) == i
    ctx.ob('TAB/pitch-class-names', mi, node, ok, 'index %d is %s' % (i, n) if ok else '_PITCH_CLASS_MAPPING[%d] = %r, which is pitch class %d' % (i, n, name_pc(n)), construct='_PITCH_CLASS_MAPPING[%d]' % i)
  kinds = fold.need(lambda: fd.module_const('chord_symbols_lib', '_CHORD_KINDS_BY_ABBREV'), '_CHORD_KINDS_BY_ABBREV')
  triads = {'CHORD_QUALITY_MAJOR': ['1', '3', '5'], 'CHORD_QUALITY_MINOR': ['1', 'b3', '5'], 'CHORD_QUALITY_AUGMENTED': ['1', '3', '#5'], 'CHORD_QUALITY_DIMINISHED': ['1', 'b3', 'b5']}
  env0 = _fold_env(ctx, mi, ['NOTES_PER_OCTAVE'])
  for cname, nq in (('MajorMinorChordOneHotEncoding', 2), ('TriadChordOneHotEncoding', 4)):
    ci = mi.classes[cname]
    enc, dec, nc = ci.methods['encode_event'], ci.methods['decode_event'], ci.methods['num_classes']
    ix = dec.params()[1]
    block_split(ctx, dec, ix, env0, cname)
    ep = [(g, e, rn) for (g, e, rn) in iface.pieces(enc.node) if not (isinstance(e, ast.Constant))]
    dp = [(g, d, rn) for (g, d, rn) in iface.pieces(dec.node) if not isinstance(d, ast.Name)]
    ctx.require(len(ep) == nq and len(dp) == nq, '%s: expected %d encode/decode pieces, found %d/%d' % (cname, nq, len(ep), len(dp)))

    def _strip(g):
      out = []
      for t, pol in g:
        while isinstance(t, ast.UnaryOp) and isinstance(t.op, ast.Not):
          t, pol = t.operand, not pol
        out.append((t, pol))
      return out
    ep = [(_strip(g), e, rn) for (g, e, rn) in ep]
    dp = [(_strip(g), d, rn) for (g, d, rn) in dp]
    # pieces are paired by the block they belong to, not by where they stand: an encode piece  root + 12k + 1,
    # a decode piece whose table index is  index - 12k - 1
    def _const_part(x):
      try:
        p_ = nf.Builder(dict(env0)).rat(x).poly()
        c_ = p_.t.get((), 0) if p_ is not None else None
        return c_ if c_ is not None and getattr(c_, 'denominator', 1) == 1 else None
      except nf.NFError:
        return None

    def _dec_index(d):
      tab_ = d.left if isinstance(d, ast.BinOp) and isinstance(d.op, ast.Add) and isinstance(d.right, ast.Constant) else d
      return tab_.slice if isinstance(tab_, ast.Subscript) else None
    ek = [_const_part(e) for (_g, e, _r) in ep]
    dk = [(-_const_part(_dec_index(d)) if _dec_index(d) is not None and _const_part(_dec_index(d)) is not None else None) for (_g, d, _r) in dp]
    if None not in ek and None not in dk and len(set(ek)) == nq and len(set(dk)) == nq:
      ep = [x for _k, x in sorted(zip(ek, ep), key=lambda kv: kv[0])]
      dp = [x for _k, x in sorted(zip(dk, dp), key=lambda kv: kv[0])]
    root = None
    for k, ((g, e, rn), (g2, d, rn2)) in enumerate(zip(ep, dp)):
      # quality of the encode piece
      q = None
      for (t, pol) in g:
        sd = U.eq_sides(t, lambda a: (dotted(a) or '').split('.')[-1].startswith('CHORD_QUALITY_')) if pol else None
        if sd:
          q = dotted(sd[0]).split('.')[-1]
      # decode: TABLE[idx] (+ suffix)
      suf = ''
      tab = d
      if isinstance(d, ast.BinOp) and isinstance(d.op, ast.Add) and isinstance(d.right, ast.Constant):
        suf, tab = d.right.value, d.left
      ok = isinstance(tab, ast.Subscript) and norm_text(tab.value) == '_PITCH_CLASS_MAPPING'
      inv = False
      if ok:
        try:
          r = nf.Builder(dict(env0, **{ix: e})).rat(tab.slice)
          atoms = r.atoms()
          inv = len(atoms) == 1 and r.equals(nf.rat(E(list(atoms)[0])))
          root = list(atoms)[0] if inv else root
        except nf.NFError:
          inv = False
      ctx.ob('INV/chords', dec, rn2, ok and inv, '%s piece %d: table index of decode(encode) is the root' % (cname, k) if ok and inv else
             '%s: decode piece %d (%s) does not invert encode piece %s' % (cname, k, norm_text(d), norm_text(e)), construct='%s piece %d' % (cname, k))
      # the suffix denotes the quality encoded at this offset
      okq = q in triads and kinds.get(suf) == triads[q]
      ctx.ob('TAB/chord-suffix', dec, rn2, okq, 'suffix %r is parsed as the %s triad' % (suf, q) if okq else
             '%s decodes offset %d with suffix %r (%s), but that offset encodes %s' % (cname, k, suf, kinds.get(suf), q), construct='%s suffix %d' % (cname, k))
      # encode offset = k * N + 1
      try:
        off = nf.Builder(env0).rat(e) - nf.rat(E(root)) if root else None
        oko = off is not None and off.const_value() == 12 * k + 1
      except nf.NFError:
        oko = False
      ctx.ob('INV/chords-offset', enc, rn, oko, '%s: quality %d is encoded at root + %d' % (cname, k, 12 * k + 1) if oko else '%s: encode piece %s is not root + %d' % (cname, norm_text(e), 12 * k + 1),
             construct='%s offset %d' % (cname, k))
      # decode guard k: idx_k < 12  (last piece: else)
      if k < nq - 1:
        pos = [t for (t, pol) in g2 if pol]
        okg = False
        if pos:
          try:
            c = nf.compare_nf(pos[-1], env0)
            want = nf.compare_nf(E('%s < %d' % (ix, 12 * (k + 1) + 1)), env0)
            okg = nf.compare_equal(c, want)
          except nf.NFError:
            okg = False
        ctx.ob('INV/chords-guard', dec, rn2, okg, '%s: indices below %d decode as quality %d' % (cname, 12 * (k + 1) + 1, k) if okg else
               '%s: the decode guard of piece %d is not index < %d' % (cname, k, 12 * (k + 1) + 1), construct='%s guard %d' % (cname, k))
    r = [s for s in U.walk_stmts(nc.node) if isinstance(s, ast.Return)]
    ok = len(r) == 1 and nf.Builder(env0).rat(r[0].value).const_value() == 12 * nq + 1
    ctx.ob('WIDTH/chords', nc, r[0] if r else nc.node, ok, '%s.num_classes = %d' % (cname, 12 * nq + 1) if ok else '%s.num_classes is not %d qualities x 12 roots + 1' % (cname, nq), construct='%s num_classes' % cname)
    zero = [s for s in enc.node.body if isinstance(s, ast.If) and 'NO_CHORD' in norm_text(s.test) and isinstance(s.body[0], ast.Return) and U.const_value(s.body[0].value) == 0]
    zd = [s for s in dec.node.body if isinstance(s, ast.If)]
    ok = len(zero) == 1 and zd and 'NO_CHORD' in norm_text(zd[0].body[0])
    ctx.ob('INV/chords-no-chord', enc, zero[0] if zero else enc.node, ok, 'NO_CHORD <-> 0' if ok else '%s does not map NO_CHORD to index 0 and back' % cname, construct='%s NO_CHORD' % cname)


def block_split(ctx, dec, ix, env0, cname, rule='INV/chords-block-split', _depth=0):
  """Location-independent: index 0 is NO_CHORD, so the 12 roots of quality k occupy 12k+1 .. 12k+12.  However the decoder splits
  an index into (quality, root) - divmod, //, % by the octave - the dividend must be index - 1 (for %, congruent to it modulo
  12): splitting `index` itself sends every multiple of 12 to the wrong block."""
  fn = dec.node
  want = nf.rat(E('%s - 1' % ix))
  # the split may live in a module-level helper the decoder hands its index to
  for c in U.calls_in(fn):
    g = dec.module.functions.get(dotted(c.func) or '')
    if g is not None and g is not dec and not _depth:
      for k, a in enumerate(c.args):
        if isinstance(a, ast.Name) and a.id == ix and k < len(g.params()):
          block_split(ctx, g, g.params()[k], env0, cname, rule, _depth=1)
  for n in ast.walk(fn):
    kind = None
    if isinstance(n, ast.Call) and dotted(n.func) == 'divmod' and len(n.args) == 2:
      kind, dividend, divisor = 'divmod', n.args[0], n.args[1]
    elif isinstance(n, ast.BinOp) and isinstance(n.op, (ast.FloorDiv, ast.Mod)):
      kind, dividend, divisor = ('//' if isinstance(n.op, ast.FloorDiv) else '%'), n.left, n.right
    if kind is None:
      continue
    try:
      if nf.Builder(env0).rat(divisor).const_value() != 12:
        continue
      diff = (nf.Builder(env0).rat(U.expand_locals(fn, dividend, at=n)) - want).const_value()
    except (nf.NFError, AttributeError):
      continue
    if diff is None:
      continue
    if diff == 0 or (kind == '%' and diff % 12 == 0):
      ctx.ob(rule, dec, n, True, '%s splits index - 1 into (quality, root)' % cname, construct='%s %s by the octave' % (cname, kind), definite=True)
    elif diff % 12 != 0:
      ctx.ob(rule, dec, n, False, '%s: %s splits %s, which is index - 1 %+d: index 0 is NO_CHORD and quality k owns 12k+1 .. 12k+12, so indices that are multiples '
             'of 12 (the chords on B) decode into the neighbouring quality' % (cname, norm_text(n), norm_text(dividend), diff), construct='%s %s by the octave' % (cname, kind), definite=True)


def _le_form(c):
  """integer comparison (e, sym) as  e' <= 0"""
  e, sym = c
  if sym == '<':
    return e + nf.Rat(nf.Poly.const(1))
  if sym == '<=':
    return e
  return None


def range_inclusion(ctx, init):
  """Location-independent: an event type owns a block of indices exactly when its value range lo..hi is non-empty, lo <= hi (a
  range with a single value - one velocity bin, one shift step, one pitch - is a block of width 1).  Whatever condition decides
  whether a (type, lo, hi) range is listed - a guard around an append, a filter of a comprehension over candidate ranges - must
  be the integer comparison lo <= hi; lo < hi drops the one-value block, so valid events of that type cannot be encoded."""
  fn = init.node
  for n in ast.walk(fn):
    # [(t, lo, hi) for t, lo, hi in candidates if COND]
    if isinstance(n, (ast.ListComp, ast.GeneratorExp)) and len(n.generators) == 1 and isinstance(n.generators[0].target, ast.Tuple) and len(n.generators[0].target.elts) == 3 and \
       all(isinstance(e, ast.Name) for e in n.generators[0].target.elts):
      _t, lo, hi = [e.id for e in n.generators[0].target.elts]
      for cond in n.generators[0].ifs:
        _judge(ctx, init, cond, lo, hi, 'the filter of the range list')
    # if COND: ranges.append((TYPE, lo, hi))
    if isinstance(n, ast.If):
      for s in n.body:
        if isinstance(s, ast.Expr) and isinstance(s.value, ast.Call) and isinstance(s.value.func, ast.Attribute) and s.value.func.attr == 'append' and len(s.value.args) == 1 and \
           isinstance(s.value.args[0], ast.Tuple) and len(s.value.args[0].elts) == 3 and (dotted(s.value.args[0].elts[0]) or '').startswith('PerformanceEvent.'):
          _judge(ctx, init, n.test, norm_text(s.value.args[0].elts[1]), norm_text(s.value.args[0].elts[2]), 'the guard of the %s range' % dotted(s.value.args[0].elts[0]).split('.')[-1])


def _judge(ctx, init, cond, lo, hi, what):
  try:
    c = nf.compare_nf(cond)
    w = nf.compare_nf(E('%s <= %s' % (lo, hi)))
  except nf.NFError:
    return
  if c is None or _le_form(c) is None:
    return
  if not (_le_form(c).atoms() <= _le_form(w).atoms() | set()) or not _le_form(c).atoms():
    return      # a condition on something else
  ok = _le_form(c).equals(_le_form(w))
  ctx.ob('TAB/performance-range-inclusion', init, cond, ok, '%s is %s <= %s' % (what, lo, hi) if ok else
         '%s is %s, not %s <= %s: a range with exactly one value (one velocity bin, max_shift_steps == 1, min_pitch == max_pitch) is not listed, so num_classes shrinks and '
         'encode_event rejects valid events of that type' % (what, norm_text(cond), lo, hi), construct='a non-empty value range owns a block', definite=True)


# ------------------------------------------------------------------ performance
def performance(ctx):
  ci = ctx.cls('performance_encoder_decoder:PerformanceOneHotEncoding')
  enc, dec, nc = ci.methods['encode_event'], ci.methods['decode_event'], ci.methods['num_classes']
  loops = {}
  for name, m in (('encode', enc), ('decode', dec)):
    lp = next((n for n in m.node.body if isinstance(n, ast.For)), None)
    ctx.require(lp is not None and isinstance(lp.target, ast.Tuple) and len(lp.target.elts) == 3, 'PerformanceOneHotEncoding.%s_event: range loop not found' % name)
    loops[name] = lp
  for name, lp in loops.items():
    ok = norm_text(lp.iter) == 'self._event_ranges'
    ctx.ob('INV/performance-ranges', ci.methods[name + '_event'], lp, ok, '%s walks self._event_ranges' % name if ok else '%s does not walk self._event_ranges' % name, construct='%s iterates _event_ranges' % name)
  widths = {}
  for name, lp in loops.items():
    t, lo, hi = [e.id for e in lp.target.elts]
    adv = [s for s in lp.body if isinstance(s, ast.AugAssign) and isinstance(s.op, ast.Add) and isinstance(s.target, ast.Name)]
    ctx.require(len(adv) == 1, 'PerformanceOneHotEncoding.%s_event: offset advance not found' % name)
    off = adv[0].target.id
    widths[name] = nf.Builder({lo: E('LO'), hi: E('HI')}).rat(cov.resolve_value(m.node if False else ci.methods[name + '_event'].node, adv[0].value, adv[0]))
    ok = widths[name].equals(nf.rat(E('HI - LO + 1')))
    ctx.ob('WIDTH/performance', ci.methods[name + '_event'], adv[0], ok, '%s advances by max - min + 1' % name if ok else
           '%s advances the offset by %r, the block width is max - min + 1' % (name, widths[name]), construct='%s offset advance' % name)
    loops[name] = (lp, t, lo, hi, off)
  gen = [n for n in ast.walk(nc.node) if isinstance(n, ast.GeneratorExp)]
  ok = False
  if len(gen) == 1 and isinstance(gen[0].generators[0].target, ast.Tuple):
    _t, lo, hi = [e.id for e in gen[0].generators[0].target.elts]
    ok = nf.Builder({lo: E('LO'), hi: E('HI')}).rat(gen[0].elt).equals(nf.rat(E('HI - LO + 1'))) and norm_text(gen[0].generators[0].iter) == 'self._event_ranges'
  ctx.ob('WIDTH/performance', nc, nc.node, ok, 'num_classes sums max - min + 1 over the same ranges' if ok else 'num_classes does not sum max - min + 1 over self._event_ranges', construct='num_classes width sum')
  # inverse expressions
  lp, t, lo, hi, off = loops['encode']
  er = [s for s in ast.walk(lp) if isinstance(s, ast.Return)]
  lpd, td, lod, hid, offd = loops['decode']
  dr = [s for s in ast.walk(lpd) if isinstance(s, ast.Return)]
  ok = False
  if len(er) == 1 and len(dr) == 1 and isinstance(dr[0].value, ast.Call):
    kw = {k.arg: k.value for k in dr[0].value.keywords}
    ix = dec.params()[1]
    ev = enc.params()[1]
    try:
      e_expr = nf.Builder({lo: E('LO'), hi: E('HI'), off: E('OFF')}).rat(er[0].value)
      d_val = nf.Builder({lod: E('LO'), hid: E('HI'), offd: E('OFF'), ix: e_expr}).rat(kw.get('event_value'))
      ok = d_val.equals(nf.rat(E('%s.event_value' % ev))) and norm_text(kw.get('event_type')) == td
    except (nf.NFError, TypeError):
      ok = False
  ctx.ob('INV/performance', dec, dr[0] if dr else dec.node, ok, 'decode(encode(event)).event_value == event.event_value within a block' if ok else
         'the decoded value is not the inverse of the encoded label within a block', construct='performance inverse pieces')
  g = [s for s in lpd.body if isinstance(s, ast.If)]
  ok = False
  if g and isinstance(g[0].test, ast.Compare) and len(g[0].test.ops) == 2:
    c = g[0].test
    try:
      b = nf.Builder({lod: E('LO'), hid: E('HI'), offd: E('OFF')})
      ok = isinstance(c.ops[0], ast.LtE) and isinstance(c.ops[1], ast.LtE) and b.rat(c.left).equals(nf.rat(E('OFF'))) and \
          b.rat(c.comparators[1]).equals(nf.rat(E('OFF + HI - LO'))) and norm_text(c.comparators[0]) == dec.params()[1]
    except nf.NFError:
      ok = False
  ctx.ob('INV/performance-guard', dec, g[0] if g else dec.node, ok, 'a block covers offset <= index <= offset + max - min (its width)' if ok else
         'the decode guard does not cover exactly one block of width max - min + 1', construct='performance decode guard')
  tg = [s for s in lp.body if isinstance(s, ast.If)]
  ok = bool(tg) and norm_text(tg[0].test) == '%s.event_type == %s' % (enc.params()[1], t)
  ctx.ob('INV/performance-type', enc, tg[0] if tg else enc.node, ok, 'the block is selected by the event type' if ok else 'encode does not select the block by event type')
  init = ci.methods['__init__']
  rngs = [n for n in ast.walk(init.node) if isinstance(n, ast.Tuple) and len(n.elts) == 3 and (dotted(n.elts[0]) or '').startswith('PerformanceEvent.')]
  got = {dotted(n.elts[0]).split('.')[-1]: (norm_text(n.elts[1]), norm_text(n.elts[2])) for n in rngs}
  want = {'NOTE_ON': ('min_pitch', 'max_pitch'), 'NOTE_OFF': ('min_pitch', 'max_pitch'), 'TIME_SHIFT': ('1', 'max_shift_steps'), 'VELOCITY': ('1', 'num_velocity_bins')}
  ok = got == want
  ctx.ob('TAB/performance-ranges', init, init.node, ok, 'ranges: pitches, pitches, 1..max_shift_steps, 1..num_velocity_bins' if ok else 'event ranges are %s' % got, construct='performance event ranges')
  range_inclusion(ctx, init)
  fd = fold.Folder(ctx.P, ctx.S)
  lo_, hi_ = fd.module_const('performance_lib', 'MIN_MIDI_PITCH'), fd.module_const('performance_lib', 'MAX_MIDI_PITCH')
  ok = (lo_, hi_) == (0, 127)
  ctx.ob('TAB/performance-ranges', init, init.node, ok, 'default pitch range folds to 0..127' if ok else 'default pitch range folds to %s..%s' % (lo_, hi_), construct='default pitch range 0..127')


# ------------------------------------------------------------------ note density
def density(ctx):
  ci = ctx.cls('performance_controls:NoteDensityPerformanceControlSignal.NoteDensityOneHotEncoding')
  enc, dec, nc = ci.methods['encode_event'], ci.methods['decode_event'], ci.methods['num_classes']
  lp = next((n for n in enc.node.body if isinstance(n, ast.For)), None)
  ok = False
  if lp is not None and isinstance(lp.iter, ast.Call) and dotted(lp.iter.func) == 'enumerate' and norm_text(lp.iter.args[0]) == 'self._density_bin_ranges':
    i, d = [e.id for e in lp.target.elts]
    g = lp.body[0]
    ok = isinstance(g, ast.If) and nf.compare_equal(nf.compare_nf(g.test), nf.compare_nf(E('%s < %s' % (enc.params()[1], d)))) and \
        isinstance(g.body[0], ast.Return) and norm_text(g.body[0].value) == i
  last = enc.node.body[-1]
  ok = ok and isinstance(last, ast.Return) and norm_text(last.value) == 'len(self._density_bin_ranges)'
  ctx.ob('INV/density-encode', enc, lp or enc.node, ok, 'label = number of boundaries <= event (first boundary above the event)' if ok else
         'encode_event is not "index of the first boundary above the event, else the number of boundaries"', construct='density encode')
  dp = iface.pieces(dec.node)
  ok = len(dp) == 2 and U.const_value(dp[0][1]) == 0 and nf.compare_equal(nf.compare_nf(dp[0][0][0][0]), nf.compare_nf(E('%s == 0' % dec.params()[1]))) and \
      norm_text(dp[1][1]) == 'self._density_bin_ranges[%s - 1]' % dec.params()[1]
  ctx.ob('INV/density-decode', dec, dec.node, ok, 'decode = 0.0 for bin 0, else the lower bound ranges[index - 1]' if ok else 'decode_event is not the bin lower bound', construct='density decode')
  r = [s for s in U.walk_stmts(nc.node) if isinstance(s, ast.Return)]
  ok = len(r) == 1 and norm_text(r[0].value) == 'len(self._density_bin_ranges) + 1'
  ctx.ob('WIDTH/density', nc, r[0] if r else nc.node, ok, 'num_classes = boundaries + 1' if ok else 'num_classes is not len(boundaries) + 1', construct='density num_classes')


# ------------------------------------------------------------------ drums
def default_table_only_as_fallback(ctx, rule='DRUMS/default-table-only-as-fallback'):
  """MultiDrumOneHotEncoding takes its drum types from its argument; DEFAULT_DRUM_TYPE_PITCHES is what the argument *defaults to*.
  Inside the class the module constant may only stand as the value bound to the table in use (a plain assignment or one arm of a
  conditional expression).  Its length, or a loop over it, describes the default table whatever table the encoding was built with."""
  mi = ctx.P.module('drums_encoder_decoder')
  ci = mi.classes.get('MultiDrumOneHotEncoding')
  if ci is None:
    return
  n = 0
  for m in ci.methods.values():
    pm = U.parents(m.node)
    for x in ast.walk(m.node):
      if not (isinstance(x, ast.Name) and x.id == 'DEFAULT_DRUM_TYPE_PITCHES' and isinstance(x.ctx, ast.Load)):
        continue
      n += 1
      par = pm.get(id(x))
      ok = (isinstance(par, ast.Assign) and par.value is x) or (isinstance(par, ast.IfExp) and x in (par.body, par.orelse)) or \
          (isinstance(par, ast.BoolOp) and isinstance(par.op, ast.Or) and par.values[-1] is x)
      ctx.ob(rule, m, par if isinstance(par, ast.AST) else x, ok, 'the default table is bound as the table in use' if ok else
             '%s uses the module constant DEFAULT_DRUM_TYPE_PITCHES in `%s`: an encoding built with another table (3 drum types, 11) reports the size of the default one - num_classes that '
             'decode_event does not cover, or labels outside it' % (m.qualname, norm_text(par)[:60]), construct='%s: DEFAULT_DRUM_TYPE_PITCHES only as fallback' % m.qualname, definite=True)
  if n == 0:
    ctx.ob(rule, ci, ci.node, True, 'the class does not name the default table', construct='DEFAULT_DRUM_TYPE_PITCHES only as fallback')


def drums(ctx):
  default_table_only_as_fallback(ctx)
  mi = ctx.P.module('drums_encoder_decoder')
  fd = fold.Folder(ctx.P, ctx.S)
  tab = fold.need(lambda: fd.module_const(mi, 'DEFAULT_DRUM_TYPE_PITCHES'), 'DEFAULT_DRUM_TYPE_PITCHES')
  node = mi.assigns['DEFAULT_DRUM_TYPE_PITCHES'][0]
  seen = {}
  for i, row in enumerate(tab):
    ok = len(row) > 0
    ctx.ob('TAB/drum-rows', mi, node, ok, 'drum type %d has %d pitches' % (i, len(row)) if ok else 'drum type %d is empty: decode would fail on that bit' % i, construct='drum type %d non-empty' % i)
    dup = [p for p in row if p in seen]
    inner = [p for p in row if row.count(p) > 1]
    ok = not dup
    ctx.ob('TAB/drum-disjoint', mi, node, ok, 'drum type %d shares no pitch with earlier types' % i if ok else
           'pitch %s is listed under drum types %d and %d: the inverse map keeps one of them, so encode(decode(i)) != i for the other' % (dup[0], seen[dup[0]], i), construct='drum type %d disjoint' % i)
    for p in row:
      seen.setdefault(p, i)
  ci = mi.classes['MultiDrumOneHotEncoding']
  init, enc, dec, nc = ci.methods['__init__'], ci.methods['encode_event'], ci.methods['decode_event'], ci.methods['num_classes']
  inv = [s for s in init.node.body if isinstance(s, ast.Assign) and norm_text(s.targets[0]) == 'self._inverse_drum_map']
  ok = len(inv) == 1 and 'self._drum_map.items()' in norm_text(inv[0].value)
  ctx.ob('INV/drums-inverse-map', init, inv[0] if inv else init.node, ok, 'the inverse map is derived from the drum map' if ok else 'the pitch -> type map is not derived from the type -> pitches map')
  r = [s for s in U.walk_stmts(enc.node) if isinstance(s, ast.Return)]
  ok = len(r) == 1 and norm_text(r[0].value).replace(' ', '') in ('sum((2**iforiindrum_type_indices))', 'sum(2**iforiindrum_type_indices)') or \
      (len(r) == 1 and isinstance(r[0].value, ast.Call) and dotted(r[0].value.func) == 'sum' and '2 **' in norm_text(r[0].value))
  ctx.ob('INV/drums-encode', enc, r[0] if r else enc.node, ok, 'label = sum of 2**type over the set of drum types present' if ok else 'encode_event is not the bit mask of the drum types present')
  # several pitches map to one drum type, so the types must be collected in a set before 2**type is summed (a repeated type would carry into the next bit)
  src = None
  if len(r) == 1 and isinstance(r[0].value, ast.Call) and r[0].value.args and isinstance(r[0].value.args[0], (ast.GeneratorExp, ast.ListComp, ast.SetComp)):
    src = r[0].value.args[0].generators[0].iter
  isset = False
  if isinstance(src, ast.Name):
    ds = [s_ for s_ in U.walk_stmts(enc.node) if isinstance(s_, ast.Assign) and any(isinstance(t, ast.Name) and t.id == src.id for t in s_.targets)]
    isset = len(ds) == 1 and (isinstance(ds[0].value, (ast.Set, ast.SetComp)) or (isinstance(ds[0].value, ast.Call) and dotted(ds[0].value.func) in ('set', 'frozenset')))
  elif isinstance(src, ast.Call) and dotted(src.func) in ('set', 'frozenset'):
    isset = True
  elif src is not None and len(r) == 1 and isinstance(r[0].value.args[0], ast.SetComp):
    isset = False   # a set of 2**i values would also do, but then the summed expression is the set itself
  located = src is not None and any(isinstance(x, ast.BinOp) and isinstance(x.op, ast.Pow) and U.const_value(x.left) == 2 for x in ast.walk(r[0].value)) if len(r) == 1 else False
  ctx.ob('INV/drums-type-set', enc, r[0] if r else enc.node, isset, 'the drum types are de-duplicated (a set) before their bits are summed' if isset else
         'the drum types whose bits are summed are not collected in a set: two pitches of one drum type add 2**type twice and carry into another bit', construct='sum(2**i) over a set of types', definite=located)
  txt = norm_text(dec.node)
  ok = 'reversed(str(bin(' in txt and "== '1'" in txt and 'self._drum_map[' in txt and '[0]' in txt
  ctx.ob('INV/drums-decode', dec, dec.node, ok, 'decode reads the bits from the least significant end and takes the first pitch of each type' if ok else
         'decode_event does not read bit i (LSB first) as drum type i / take the first pitch of the type')
  r = [s for s in U.walk_stmts(nc.node) if isinstance(s, ast.Return)]
  ok = False
  if len(r) == 1:
    try:
      ok = nf.rat(U.expand_locals(nc.node, r[0].value, at=r[0])).equals(nf.rat(E('2 ** len(self._drum_map)')))
    except nf.NFError:
      ok = False
  ctx.ob('WIDTH/drums', nc, r[0] if r else nc.node, ok, 'num_classes = 2 ** number of drum types' if ok else 'num_classes is not 2 ** len(drum map)')


# ------------------------------------------------------------------ velocity
def _ceil_div_form(fn, expr, at):
  """('ceil' | 'floor' | 'round' | None, numerator, denominator): the integer-division idiom `expr` is written in.
  ceil:  int(math.ceil(a / n)) | math.ceil(a / n) | -(-a // n) | (a + n - 1) // n | q + 1 if r else q | q + (1 if r else 0) |
         q + bool(r) | q + (r > 0)   with q, r = divmod(a, n) (or q = a // n, r = a % n)
  floor: a // n | int(a / n) | int(math.floor(a / n)) | divmod(a, n)[0];   round: round(a / n) | int(a / n + 0.5)"""
  e = U.expand_locals(fn, expr, at=at)
  while isinstance(e, ast.Call) and dotted(e.func) in ('int', 'float') and len(e.args) == 1:
    e = e.args[0]

  def qr(x, op):
    return x.left, x.right if isinstance(x, ast.BinOp) and isinstance(x.op, op) else None
  if isinstance(e, ast.Call) and dotted(e.func) in ('math.ceil', 'math.floor', 'round', 'np.ceil', 'np.floor') and len(e.args) == 1 and isinstance(e.args[0], ast.BinOp) and isinstance(e.args[0].op, ast.Div):
    kind = {'math.ceil': 'ceil', 'np.ceil': 'ceil', 'math.floor': 'floor', 'np.floor': 'floor', 'round': 'round'}[dotted(e.func)]
    return kind, e.args[0].left, e.args[0].right
  if isinstance(e, ast.BinOp) and isinstance(e.op, ast.Div):
    return 'floor', e.left, e.right          # int(a / n) truncates (positive operands)
  if isinstance(e, ast.UnaryOp) and isinstance(e.op, ast.USub) and isinstance(e.operand, ast.BinOp) and isinstance(e.operand.op, ast.FloorDiv) and \
      isinstance(e.operand.left, ast.UnaryOp) and isinstance(e.operand.left.op, ast.USub):
    return 'ceil', e.operand.left.operand, e.operand.right
  if isinstance(e, ast.BinOp) and isinstance(e.op, ast.FloorDiv):
    try:     # (a + n - 1) // n
      a_ = nf.rat(e.left) - nf.rat(e.right) + nf.rat(E('1'))
      if not any(at_ in a_.atoms() for at_ in nf.rat(e.right).atoms()):
        return 'ceil', ast.parse(repr(a_).replace('^', '**'), mode='eval').body if False else ('NF', a_), e.right
    except (nf.NFError, SyntaxError):
      pass
    return 'floor', e.left, e.right
  # q + <1 iff r>   /   q + 1 if r else q
  def is_floor(x):
    return isinstance(x, ast.BinOp) and isinstance(x.op, ast.FloorDiv)

  def is_rem_of(x, q):
    t = x
    if isinstance(t, ast.Compare) and len(t.ops) == 1 and isinstance(t.ops[0], (ast.Gt, ast.NotEq, ast.Lt)) and 0 in (U.const_value(t.left), U.const_value(t.comparators[0])):
      t = t.left if U.const_value(t.comparators[0]) == 0 else t.comparators[0]
    if isinstance(t, ast.Call) and dotted(t.func) == 'bool' and len(t.args) == 1:
      t = t.args[0]
    return isinstance(t, ast.BinOp) and isinstance(t.op, ast.Mod) and norm_text(t.left) == norm_text(q.left) and norm_text(t.right) == norm_text(q.right)
  if isinstance(e, ast.IfExp) and is_rem_of(e.test, e.orelse if is_floor(e.orelse) else ast.BinOp(left=ast.Constant(0), op=ast.FloorDiv(), right=ast.Constant(1))) and is_floor(e.orelse) and \
      isinstance(e.body, ast.BinOp) and isinstance(e.body.op, ast.Add) and norm_text(e.body.left) == norm_text(e.orelse) and U.const_value(e.body.right) == 1:
    return 'ceil', e.orelse.left, e.orelse.right
  if isinstance(e, ast.BinOp) and isinstance(e.op, ast.Add) and is_floor(e.left):
    x = e.right
    if isinstance(x, ast.IfExp) and U.const_value(x.body) == 1 and U.const_value(x.orelse) == 0 and is_rem_of(x.test, e.left):
      return 'ceil', e.left.left, e.left.right
    if is_rem_of(x, e.left) and not (isinstance(x, ast.BinOp)):
      return 'ceil', e.left.left, e.left.right
  return None, None, None


def velocity(ctx):
  """VEL: the three velocity-bin functions, read as formulas (the spelling does not matter):
  size(n) is ceil(127 / n) in one of the integer-division idioms of _ceil_div_form (a recognised floor / round idiom, or a ceiling
  of another numerator, is the located deviation; an unrecognised form is "cannot classify");
  to_bin(v) = (v - MIN + k*size) // size + (1 - k) for k in {0, 1};  to_velocity(b) = MIN + (b - 1) * size in normal form."""
  tb = ctx.func('performance_lib:velocity_to_bin')
  tv = ctx.func('performance_lib:velocity_bin_to_velocity')
  sz = ctx.func('performance_lib:_velocity_bin_size')
  r1 = [s for s in U.walk_stmts(tb.node) if isinstance(s, ast.Return)]
  r2 = [s for s in U.walk_stmts(tv.node) if isinstance(s, ast.Return)]
  ctx.require(len(r1) == 1 and len(r2) == 1, 'velocity bin functions: expected single returns')
  v, nb1 = tb.params()
  b, nb2 = tv.params()
  SZ1 = '_velocity_bin_size(%s)' % nb1
  e = U.expand_locals(tb.node, r1[0].value, at=r1[0])
  ok, unk = False, None
  try:
    c, fd = 0, e
    if isinstance(e, ast.BinOp) and isinstance(e.op, ast.Add) and U.const_value(e.right) is not None:
      c, fd = U.const_value(e.right), e.left
    elif isinstance(e, ast.BinOp) and isinstance(e.op, ast.Add) and U.const_value(e.left) is not None:
      c, fd = U.const_value(e.left), e.right
    if isinstance(fd, ast.BinOp) and isinstance(fd.op, ast.FloorDiv) and norm_text(fd.right) == SZ1 and c in (0, 1):
      want = nf.rat(E('%s - MIN_MIDI_VELOCITY' % v)) + nf.rat(E(repr(1 - c))) * nf.rat(E(SZ1))
      ok = nf.rat(fd.left).equals(want)
    elif isinstance(fd, ast.BinOp) and isinstance(fd.op, ast.FloorDiv) and not any(isinstance(x, ast.Call) and dotted(x.func) == '_velocity_bin_size' for x in ast.walk(fd)):
      ok = False        # located: the bin is a floor division by something that is not the bin size the inverse map multiplies by
    else:
      unk = 'cannot classify: velocity_to_bin returns %s' % norm_text(e)[:80]
  except nf.NFError:
    unk = 'cannot classify: velocity_to_bin returns %s' % norm_text(e)[:80]
  ctx.ob('VEL/to-bin', tb, r1[0], ok, 'bin = (velocity - MIN) // size + 1' if ok else (unk or 'velocity_to_bin is not (velocity - MIN_MIDI_VELOCITY) // size + 1 (nor (velocity - MIN + size) // size) with size = _velocity_bin_size(n), the width velocity_bin_to_velocity multiplies by: %s' % norm_text(e)[:80]),
         unknown=unk, definite=(not ok and unk is None))
  ok2, unk2 = False, None
  try:
    S = nf.rat(E('_velocity_bin_size(N)'))
    vexpr = nf.Builder({nb2: E('N')}).rat(U.expand_locals(tv.node, r2[0].value, at=r2[0]))
    ok2 = (vexpr - nf.rat(E('MIN_MIDI_VELOCITY')) - (nf.rat(E(b)) - nf.rat(E('1'))) * S).is_zero() if hasattr(vexpr, 'is_zero') else \
        vexpr.equals(nf.rat(E('MIN_MIDI_VELOCITY')) + (nf.rat(E(b)) - nf.rat(E('1'))) * S)
  except nf.NFError:
    unk2 = 'cannot classify: velocity_bin_to_velocity returns %s' % norm_text(r2[0].value)[:80]
  capped = None
  rv2 = U.expand_locals(tv.node, r2[0].value, at=r2[0])
  if not ok2 and isinstance(rv2, ast.Call) and dotted(rv2.func) == 'min' and len(rv2.args) == 2 and not rv2.keywords:
    # located: the lower bound of a bin capped from above.  MIN + (bin - 1) * ceil(127 / n) reaches 251 (n = 126, bin = 126), and is above
    # 127 for the top bins of n = 14, 17, 18, 20, ...: a cap below 251 gives two bins the same velocity, which velocity_to_bin sends to a lower bin
    mi_ = ctx.P.module('performance_lib')
    for cap_, body_ in ((rv2.args[0], rv2.args[1]), (rv2.args[1], rv2.args[0])):
      k_ = U.const_value(U.expand_locals(tv.node, cap_, module_assigns=mi_.assigns, at=r2[0]))
      if k_ is None and isinstance(cap_, ast.Name) and cap_.id in ('MAX_MIDI_VELOCITY',):
        k_ = 127
      try:
        same_ = nf.Builder({nb2: E('N')}).rat(body_).equals(nf.rat(E('MIN_MIDI_VELOCITY')) + (nf.rat(E(b)) - nf.rat(E('1'))) * nf.rat(E('_velocity_bin_size(N)')))
      except nf.NFError:
        same_ = False
      if k_ is not None and k_ < 251 and same_:
        capped = (norm_text(cap_), k_)
  if capped:
    unk2 = None
  ctx.ob('VEL/right-inverse', tv, r2[0], ok2, 'velocity(bin) = MIN + (bin - 1) * size, so to_bin(velocity(bin)) = bin' if ok2 else
         ('the lower bound of a bin is capped at %s (%s): MIN + (bin - 1) * size exceeds it for the top bins of 14, 17, 18, 20, ... bins, which then share one velocity - velocity_to_bin sends it to a lower '
          'bin, so bin -> velocity -> bin is not the identity on every bin' % capped if capped else
          (unk2 or 'velocity_bin_to_velocity is not MIN_MIDI_VELOCITY + (bin - 1) * _velocity_bin_size(n): it is not a right inverse of velocity_to_bin')), unknown=unk2, definite=bool(capped))
  r3 = [s for s in U.walk_stmts(sz.node) if isinstance(s, ast.Return)]
  ok3, wrong, why3 = False, False, 'the bin size is not written in a recognised integer-division idiom'
  if len(r3) == 1:
    kind, num, den = _ceil_div_form(sz.node, r3[0].value, r3[0])
    if kind is not None:
      try:
        numr = num[1] if isinstance(num, tuple) else nf.rat(U.expand_locals(sz.node, num, sz.module.assigns, at=r3[0]))
        want_num = nf.rat(U.expand_locals(sz.node, E('MAX_MIDI_VELOCITY - MIN_MIDI_VELOCITY + 1'), sz.module.assigns))
        same_num = numr.equals(want_num)
        same_den = norm_text(den) == sz.params()[0]
        ok3 = kind == 'ceil' and same_num and same_den
        if not ok3 and same_den and (kind in ('floor', 'round') or (kind == 'ceil' and (numr - want_num).const_value() not in (None, 0))):
          wrong = True
          why3 = 'the bin size is %s(%s / bins), not ceil((MAX_MIDI_VELOCITY - MIN_MIDI_VELOCITY + 1) / bins): %s' % (
              kind, repr(numr), 'bin numbers above the bin count appear / the top velocities share no bin' if kind != 'ceil' else 'the bins are too narrow or too wide when the bin count divides the numerator')
      except nf.NFError:
        pass
  ctx.ob('VEL/bin-size', sz, r3[0] if r3 else sz.node, ok3, 'size = ceil((MAX - MIN + 1) / bins): every velocity falls into 1..bins' if ok3 else why3, definite=wrong,
         unknown=None if (ok3 or wrong) else 'cannot classify: ' + why3)

MUTANTS = [
    Mutant('seed C09_d: drum types collected in a list', DE, "    drum_type_indices = set()", "    drum_type_indices = []", rule='INV/drums-type-set', also=[(DE, "        drum_type_indices.add(self._inverse_drum_map[pitch])", "        drum_type_indices.append(self._inverse_drum_map[pitch])")]),
    Mutant('melody decoder guard off by one', ME, "    if index < NUM_SPECIAL_MELODY_EVENTS:\n      return index - NUM_SPECIAL_MELODY_EVENTS", "    if index < NUM_SPECIAL_MELODY_EVENTS + 1:\n      return index - NUM_SPECIAL_MELODY_EVENTS", rule='INV/melody-guard'),
    Mutant('melody decode forgets min_note', ME, "    return index - NUM_SPECIAL_MELODY_EVENTS + self._min_note", "    return index - NUM_SPECIAL_MELODY_EVENTS", rule='INV/melody'),
    Mutant('melody num_classes one short', ME, "    return self._max_note - self._min_note + NUM_SPECIAL_MELODY_EVENTS", "    return self._max_note - self._min_note + NUM_SPECIAL_MELODY_EVENTS - 1", rule='WIDTH/melody'),
    Mutant('Eb renamed E in the name table', CE, "_PITCH_CLASS_MAPPING = ['C', 'C#', 'D', 'Eb', 'E', 'F',", "_PITCH_CLASS_MAPPING = ['C', 'C#', 'D', 'E', 'E', 'F',", rule='TAB/pitch-class-names'),
    Mutant('minor chords decoded as augmented', CE, "      # minor\n      return _PITCH_CLASS_MAPPING[index - NOTES_PER_OCTAVE - 1] + 'm'\n    elif index - 2", "      # minor\n      return _PITCH_CLASS_MAPPING[index - NOTES_PER_OCTAVE - 1] + 'aug'\n    elif index - 2", rule='TAB/chord-suffix'),
    Mutant('diminished decoded with the wrong offset', CE, "      return _PITCH_CLASS_MAPPING[index - 3 * NOTES_PER_OCTAVE - 1] + 'dim'", "      return _PITCH_CLASS_MAPPING[index - 3 * NOTES_PER_OCTAVE] + 'dim'", rule='INV/chords'),
    Mutant('triad num_classes for three qualities', CE, "    return 4 * NOTES_PER_OCTAVE + 1", "    return 3 * NOTES_PER_OCTAVE + 1", rule='WIDTH/chords'),
    Mutant('performance encode advances without + 1', PE, "        return offset + event.event_value - min_value\n      offset += max_value - min_value + 1", "        return offset + event.event_value - min_value\n      offset += max_value - min_value", rule='WIDTH/performance'),
    Mutant('performance num_classes without + 1', PE, "    return sum(max_value - min_value + 1\n", "    return sum(max_value - min_value\n", rule='WIDTH/performance'),
    Mutant('performance decode value off by one', PE, "            event_type=event_type, event_value=min_value + index - offset)", "            event_type=event_type, event_value=min_value + index - offset + 1)", rule='INV/performance'),
    Mutant('performance decode guard too wide', PE, "      if offset <= index <= offset + max_value - min_value:", "      if offset <= index <= offset + max_value - min_value + 1:", rule='INV/performance-guard'),
    Mutant('a pitch listed under two drum types', DE, "    [51, 53, 59, 82]", "    [51, 53, 59, 82, 49]", rule='TAB/drum-disjoint'),
    Mutant('density decodes the upper bound', PC, "        return self._density_bin_ranges[index - 1]", "        return self._density_bin_ranges[index]", rule='INV/density-decode'),
    Mutant('density boundary inclusive', PC, "        if event < density:\n          return idx", "        if event <= density:\n          return idx", rule='INV/density-encode'),
    Mutant('velocity bins computed with another size', PL, "  return (\n      MIN_MIDI_VELOCITY + (velocity_bin - 1) *\n      _velocity_bin_size(num_velocity_bins))", "  return (\n      MIN_MIDI_VELOCITY + (velocity_bin - 1) *\n      (128 // num_velocity_bins))", rule='VEL/right-inverse'),
    Mutant('velocity bin size floors', PL, "  return int(math.ceil(\n      (MAX_MIDI_VELOCITY - MIN_MIDI_VELOCITY + 1) / num_velocity_bins))", "  return int(math.floor(\n      (MAX_MIDI_VELOCITY - MIN_MIDI_VELOCITY + 1) / num_velocity_bins))", rule='VEL/bin-size'),
    Mutant('encode_event removed from the triad encoding', CE, "class TriadChordOneHotEncoding(encoder_decoder.OneHotEncoding):", "class TriadChordOneHotEncoding(MajorMinorChordOneHotEncoding):", rule=None, expect='silent'),
    Mutant('decode_event deleted from the density encoding', PC, "    def decode_event(self, index):\n      if index == 0:\n        return 0.0\n      else:\n        return self._density_bin_ranges[index - 1]\n", "", rule=None),
    # equivalent
    Mutant('width hoisted into a local', PE, "        return offset + event.event_value - min_value\n      offset += max_value - min_value + 1", "        return offset + event.event_value - min_value\n      width = max_value - min_value + 1\n      offset += width", expect='silent'),
    Mutant('drum pitches reordered after the first', DE, "    [51, 53, 59, 82]", "    [51, 82, 59, 53]", expect='silent'),
    Mutant('melody encode terms reordered', ME, "    return event - self._min_note + NUM_SPECIAL_MELODY_EVENTS", "    return NUM_SPECIAL_MELODY_EVENTS + event - self._min_note", expect='silent'),
]

RENAME_FUNCS = [(PE, 'PerformanceOneHotEncoding.encode_event'), (PE, 'PerformanceOneHotEncoding.decode_event'), (PE, 'PerformanceOneHotEncoding.num_classes'),
                (CE, 'TriadChordOneHotEncoding.encode_event'), (PC, 'NoteDensityPerformanceControlSignal.NoteDensityOneHotEncoding.encode_event'),
                (DE, 'MultiDrumOneHotEncoding.encode_event'), (DE, 'MultiDrumOneHotEncoding.decode_event')]

EXPLANATION += (' Location-independent additions: INV/chords-block-split (dividend of divmod / // / % by the octave is index - 1), TAB/performance-range-inclusion (a range is listed iff lo <= hi). Module-level numeric constants are folded in all normal forms (nf.GLOBAL_CONSTS).')
EXPLANATION += (' Round 6: ' + 'PITFALL/narrowing-cast over every method of every one-hot encoding; PITCHCLASS/reduced (chord_symbol_root / chord_symbol_bass return a value reduced modulo 12; a reduction written as loops is judged at -1, 0, 11, 12).')
EXPLANATION += (' Round 7: ' + 'INV/melody-scenarios (three ranges x five events, encode and decode folded); CHORD/quality-needs-all-degrees.')
EXPLANATION += (' Rounds 9-10: ' + 'EVENT/validator-admits (the PerformanceEvent validator evaluated on twelve decodable events); CHORD/label-below-num-classes (interval of every returned label against num_classes).')
EXPLANATION += (' Round 11: ' + 'CHORD/regex-group-into-table shared from C15; PITCHCLASS/reduced locates a one-sided wrap.')
EXPLANATION += (' Round 12: ' + 'DRUMS/default-table-only-as-fallback; CHORD/wrap-both-ways shared from C15.')
EXPLANATION += (' Round 14: ' + 'STATE/per-object for the one-hot encodings; VEL/right-inverse located for a capped lower bound; CHORD/alteration-accumulates shared from C15.')
