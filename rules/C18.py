"""C18 - frame pianorolls and note sequences convert back and forth without drift (DESIGN.md §4 C18)."""
import ast

from sa import nf, cov, roles, astutil as U
from sa.roles import Canon
from sa.loader import norm_text, dotted
from sa.selftest import Mutant

PROPERTY = 'C18'
F = 'note_seq/sequences_lib.py'
SL = 'sequences_lib'
LEVEL_TEXT = (
    'Structural necessary conditions of the frame conversions, decided from the source for all frame rates: the start frame is a '
    'floor-class conversion of start*fps and the end frame a ceil-class conversion of end*fps, followed by max(start + 1, end) (at '
    'least one frame); every roll is allocated with int(total_time*fps + 1) rows (all allocations agree); out-of-range pitches are '
    'skipped before any store; the onset window is [f - w, f + w + 1) clipped to the roll; velocities are velocity / max_velocity; the '
    'decoder uses frame_length = 1/fps (reciprocal of the encoder scale), note times are frame index * frame_length, the trailing '
    'silent frame (and the padding of onset/offset arrays) is appended before the decoding loop, a run ends at the first inactive '
    'frame, a fresh onset inside a run ends and restarts the note, and the min_duration test is >=. Exact frame sets for off-grid '
    'times and the mutual-inverse property are value facts and are not decided.')
LEVEL_NOTE = 'Trusted: int() truncates toward zero (= floor for non-negative times), math.ceil; numpy append/zeros semantics.'
TECHNIQUE = 'static analysis: rounding-class recognition and rational normal forms of frame expressions, allocation sibling agreement, dominance (skip before store, padding before loop), guard relations in comparison normal form, per-arm def-use closure (a parameter must reach the stored slice bounds in every arm of a dispatch)'
DESIGN_REF = 'DESIGN.md section 4 (C18)'
EXPLANATION = ('FRAME rounding classes and minimum length in frames_from_times; ALLOC roll sizes; SKIP dominance of the pitch-range test; WINDOW onset window; '
               'VELO scaling; DEC decoder scale, times, silent frame before the loop, run end, onset restart, min duration.')
TRUSTED = ['int() is floor for non-negative operands', 'numpy semantics']
NOT_DECIDED = ['exact frame sets for off-grid times', 'mutual inverse as a whole']
ASSUMPTIONS = []
FLOORS = {'FRAME': 14, 'ALLOC': 2, 'SKIP': 3, 'WINDOW': 2, 'VELO': 1, 'DEC': 10}


def E(t):
  return U.E(t)


def has(test, text, env=None, polarity=True):
  try:
    return nf.compare_equal(nf.compare_nf(test, env, polarity), nf.compare_nf(E(text)))
  except nf.NFError:
    return False


def rounding_class(node):
  """('floor'|'ceil'|None, inner expression)"""
  cls = None
  cur = node
  while isinstance(cur, ast.Call) and len(cur.args) == 1:
    d = dotted(cur.func)
    if d == 'int':
      cls = cls or 'floor'
    elif d in ('math.floor', 'np.floor', 'numpy.floor'):
      cls = 'floor'
    elif d in ('math.ceil', 'np.ceil', 'numpy.ceil'):
      cls = 'ceil'
    elif d in ('round', 'np.round', 'numpy.round', 'np.rint'):
      return ('round', cur.args[0])
    else:
      break
    cur = cur.args[0]
  return (cls, cur)


def ignored_notes_cannot_raise(ctx, rule):
  """Location-independent: a note whose pitch lies outside [min_pitch, max_pitch] is ignored - it may not make the conversion
  fail.  Every raise of sequence_to_pianoroll whose guard reads a note attribute is followed back to the notes it is computed
  from: inside the per-note loop it must be unreachable for pitch == min_pitch - 1 and pitch == max_pitch + 1 (three-valued
  evaluation of the path conditions, early `continue` included); outside, an aggregate over sequence.notes that feeds the guard
  must filter on the pitch range."""
  from sa import scenario, pitfalls
  fi = ctx.func(SL + ':sequence_to_pianoroll')
  fn = fi.node
  nested = [d for d in ast.walk(fn) if isinstance(d, (ast.FunctionDef, ast.Lambda)) and d is not fn]
  NOTE_ATTRS = ('velocity', 'pitch', 'start_time', 'end_time')
  out_of_range = ([('%s.pitch', 'min_pitch - 1')], [('%s.pitch', 'max_pitch + 1')])
  n = 0
  for r in ast.walk(fn):
    if not isinstance(r, ast.Raise) or any(any(r is x for x in ast.walk(d)) for d in nested):
      continue
    conds = [(U.expand_locals(fn, t, at=r), p) for t, p in U.path_conditions(fn, r)]
    loops = [lp for lp in U.enclosing_loops(fn, r) if isinstance(lp, ast.For) and isinstance(lp.target, ast.Name) and '.notes' in norm_text(lp.iter)]
    cons = 'a note outside the pitch range cannot make the conversion raise (%s)' % norm_text(r)[:60]
    if loops:
      v = loops[0].target.id
      if not any(isinstance(x, ast.Attribute) and x.attr in NOTE_ATTRS and norm_text(x.value) == v for t, _p in conds for x in ast.walk(t)):
        continue
      n += 1
      res = [scenario.tv_all(conds, scenario.subst_of([(a % v, b) for a, b in sc])) for sc in out_of_range]
      if all(x is False for x in res):
        ctx.ob(rule, fi, r, True, 'unreachable for pitch == min_pitch - 1 and for pitch == max_pitch + 1: the range test comes first', construct=cons)
      elif any(x is True for x in res):
        ctx.ob(rule, fi, r, False, 'a note with pitch %s reaches %s: an ignored note makes the conversion fail' % (
            'min_pitch - 1' if res[0] is True else 'max_pitch + 1', norm_text(r)[:80]), construct=cons, definite=True)
      else:
        why = 'cannot classify: whether an out-of-range note reaches %s is not decided by its path conditions' % norm_text(r)[:60]
        ctx.ob(rule, fi, r, False, why, construct=cons, unknown=why)
      continue
    # outside the per-note loop: aggregates over the notes in the guard
    for t, _p in conds:
      for comp in ast.walk(t):
        if not isinstance(comp, (ast.ListComp, ast.GeneratorExp, ast.SetComp)):
          continue
        g = comp.generators[0]
        if not (isinstance(g.target, ast.Name) and '.notes' in norm_text(g.iter)):
          continue
        v = g.target.id
        if not any(isinstance(x, ast.Attribute) and x.attr in NOTE_ATTRS and norm_text(x.value) == v for x in ast.walk(comp.elt)):
          continue
        n += 1
        ifs = [(f, True) for f in g.ifs]
        res = [scenario.tv_all(ifs, scenario.subst_of([(a % v, b) for a, b in sc])) if ifs else True for sc in out_of_range]
        if all(x is False for x in res):
          ctx.ob(rule, fi, r, True, 'the aggregate %s leaves out-of-range notes out' % norm_text(comp)[:60], construct=cons)
        elif any(x is True for x in res):
          ctx.ob(rule, fi, r, False, '%s is decided by %s, which is taken over every note of the sequence, also those whose pitch is outside [min_pitch, max_pitch]: '
                 'a note that must be ignored makes the whole conversion raise' % (norm_text(r)[:70], norm_text(comp)[:80]), construct=cons, definite=True)
        else:
          why = 'cannot classify: the filter of %s cannot be evaluated for an out-of-range pitch' % norm_text(comp)[:60]
          ctx.ob(rule, fi, r, False, why, construct=cons, unknown=why)
  if n == 0:
    ctx.ob(rule, fi, fn, True, 'no raise depends on a note attribute', construct='no raise of sequence_to_pianoroll depends on a note')


# (start_time, end_time, frames_per_second, min_frame_occupancy_for_label) -> (first active frame, one past the last): cases in which the
# statement fixes the answer ("floor(start*fps) up to ceil(end*fps), at least one frame"): starts on the frame grid or occupancy 0, and
# with a positive occupancy only notes that reach far past their second frame.  All values are exact binary fractions.
FRAME_SCENARIOS = [
    ((0, 1, 8, 0), (0, 8)),
    (('1/8', '65/32', 8, 0), (1, 17)),
    ((0, '65/32', 8, '1/4'), (0, 17)),          # reaches a quarter of a frame into frame 16: still "up to ceil(end*fps)"
    ((0, '65/32', 8, '3/8'), (0, 17)),          # ... also when that is less than the occupancy asked for at the *start* of a note
    ((0, '1/32', 8, 0), (0, 1)),
    (('1/2', '1/2', 8, 0), (4, 5)),
    (('1/32', 1, 8, 0), (0, 8)),
    ((2, '129/32', 16, '1/4'), (32, 65)),
    (('1/2', '1/2', 8, '1/4'), (4, 5)),         # "at least one frame" also when an occupancy is asked for (a zero-length note on a frame boundary)
    (('1/2', '17/32', 8, '1/2'), (4, 5)),
]


def frame_scenarios(ctx, ff, st_p, en_p):
  """The frame helper evaluated path by path (substitution only) on FRAME_SCENARIOS."""
  from sa import pathval, scenario
  rule = 'FRAME/scenarios'
  try:
    ps = [(c, e) for c, e, end in pathval.paths(ff.node.body) if end == 'return' and pathval.RETURN in e]
  except pathval.PathError as e:
    why = 'cannot classify: frames_from_times is not a straight-line block (%s)' % e
    ctx.ob(rule, ff, ff.node, False, why, construct='frames of a note in the stated scenarios', unknown=why)
    return
  for (a, b, fps, occ), want in FRAME_SCENARIOS:
    sub = {st_p: nf.rat(E(str(a))), en_p: nf.rat(E(str(b))), 'frames_per_second': nf.rat(E(str(fps))), 'min_frame_occupancy_for_label': nf.rat(E(str(occ)))}
    cons = 'frames of a note from %s s to %s s at %s frames per second, occupancy %s' % (a, b, fps, occ)
    got, stuck = None, None
    for conds, env in ps:
      taken = True
      for t, pol in conds:
        v = scenario.fold_numeric(t, sub, dyadic=True)
        if v is None:
          stuck = norm_text(t)
          taken = None
          break
        if bool(v) != pol:
          taken = False
          break
      if taken is None:
        break
      if taken:
        r = env[pathval.RETURN]
        vals = [scenario.fold_numeric(x, sub, dyadic=True) for x in r.elts] if isinstance(r, ast.Tuple) and len(r.elts) == 2 else [None]
        if any(x is None for x in vals):
          stuck = norm_text(r)
        else:
          got = tuple(vals)
        break
    if got is None:
      why = 'cannot classify: %s cannot be evaluated in this scenario' % (stuck or 'no path of frames_from_times')
      ctx.ob(rule, ff, ff.node, False, why, construct=cons, unknown=why)
    else:
      ok = tuple(int(x) for x in got) == want and all(x == int(x) for x in got)
      ctx.ob(rule, ff, ff.node, ok, 'active frames [%d, %d)' % want if ok else
             'a note from %s s to %s s at %s frames per second (min_frame_occupancy_for_label = %s) is given the frames [%s, %s), not [%d, %d) = [floor(start*fps), ceil(end*fps))' % (
                 a, b, fps, occ, got[0], got[1], want[0], want[1]), construct=cons, definite=True)


def velocity_rows_are_active_rows(ctx, rule='VELO/rows-are-the-active-rows'):
  """"its velocity ... in its active frames": the rows of the velocity roll written for a note are the rows of the active roll
  written for it (sibling agreement of the two slice bounds, in normal form)."""
  fi = ctx.func(SL + ':sequence_to_pianoroll')
  fn = fi.node
  ret = next((c for c in U.calls_in(fn) if (dotted(c.func) or '').split('.')[-1] == 'Pianoroll'), None)
  kw = dict((k.arg, k.value) for k in ret.keywords) if ret is not None else {}
  act, vel = kw.get('active'), kw.get('active_velocities')
  cons = 'the velocity roll is written in the rows of the active roll'
  if not (isinstance(act, ast.Name) and isinstance(vel, ast.Name)):
    why = 'cannot classify: the active and active_velocities rolls handed to Pianoroll(...) are not plain locals'
    ctx.ob(rule, fi, fn, False, why, construct=cons, unknown=why)
    return

  def row_slices(name):
    out = []
    for st in U.walk_stmts(fn):
      if isinstance(st, ast.Assign) and len(st.targets) == 1 and isinstance(st.targets[0], ast.Subscript) and norm_text(st.targets[0].value) == name and \
          isinstance(st.targets[0].slice, ast.Tuple) and len(st.targets[0].slice.elts) == 2 and isinstance(st.targets[0].slice.elts[0], ast.Slice) and U.const_value(st.value) != 0:
        out.append((st, st.targets[0].slice.elts[0]))
    return out
  a, v = row_slices(act.id), row_slices(vel.id)
  if not a or not v:
    why = 'cannot classify: no row-slice store into %s / %s found' % (act.id, vel.id)
    ctx.ob(rule, fi, fn, False, why, construct=cons, unknown=why)
    return
  for st, sl in v:
    try:
      same = any(nf.equal(U.expand_locals(fn, sl.lower, at=st), U.expand_locals(fn, s2.lower, at=t2)) and nf.equal(U.expand_locals(fn, sl.upper, at=st), U.expand_locals(fn, s2.upper, at=t2))
                 for t2, s2 in a if sl.lower is not None and sl.upper is not None and s2.lower is not None and s2.upper is not None)
      readable = True
    except Exception:      # pylint: disable=broad-except
      same, readable = False, False
    opaque_call = any(isinstance(c_, ast.Call) and (dotted(c_.func) or '') not in ('min', 'max') for b_ in (sl.lower, sl.upper) if b_ is not None for c_ in ast.walk(U.expand_locals(fn, b_, at=st)))
    if not readable or (not same and opaque_call):
      why = 'cannot classify: the row bounds %s of the velocity store are not in normal form' % norm_text(sl)
      ctx.ob(rule, fi, st, False, why, construct=cons, unknown=why)
    else:
      ctx.ob(rule, fi, st, same, 'velocity rows %s are the active rows' % norm_text(sl) if same else
             'the velocity of a note is written into rows %s while its active frames are rows %s: the velocity leaks into frames in which the note is not active (and overwrites the last '
             'frames of an earlier note of that pitch)' % (norm_text(sl), ' / '.join(norm_text(s2) for _t, s2 in a)), construct=cons, definite=True)


def one_column_index(ctx, rule='DEC/one-column-index'):
  """pianoroll_to_note_sequence reads the frame, onset, offset and velocity matrices at [frame, column].  Inside one function (the
  converter itself, each nested helper) every such read uses the same column expression - a helper that derives `column` from a
  MIDI pitch and then reads one matrix at [i - 1, pitch] looks at a foreign column."""
  fi = ctx.func(SL + ':pianoroll_to_note_sequence')
  mats = set(p_ for p_ in fi.params() if p_ in ('frames', 'onset_predictions', 'offset_predictions', 'velocity_values'))
  scopes = [fi.node] + [g.node for g in fi.nested.values()]
  n = 0
  for sc in scopes:
    inner = set(id(y) for g in scopes if g is not sc and g is not fi.node for y in ast.walk(g)) if sc is fi.node else set()
    own = [x for x in ast.walk(sc) if id(x) not in inner]
    cols = {}
    for x in own:
      if isinstance(x, ast.Subscript) and isinstance(x.value, ast.Name) and x.value.id in mats and isinstance(x.slice, ast.Tuple) and len(x.slice.elts) == 2:
        c = norm_text(U.expand_locals(sc, x.slice.elts[1], at=x))
        cols.setdefault(c, []).append(x)
    if not cols:
      continue
    n += 1
    name = getattr(sc, 'name', '?')
    cons = '%s reads the prediction matrices at one column' % name
    if len(cols) == 1:
      ctx.ob(rule, fi, sc, True, 'every matrix read in %s uses column %s' % (name, list(cols)[0]), construct=cons)
    else:
      minority = min(cols.items(), key=lambda kv: len(kv[1]))
      ctx.ob(rule, fi, minority[1][0], False, '%s reads the matrices at column %s in %d places and at column %s in `%s`: the two differ (%s), so that read looks at another pitch\'s '
             'column (or past the last one)' % (name, max(cols.items(), key=lambda kv: len(kv[1]))[0], max(len(v_) for v_ in cols.values()), minority[0], norm_text(minority[1][0]),
                                                 ' vs '.join(sorted(cols))), construct=cons, definite=True)
  if n == 0:
    why = 'cannot classify: no [frame, column] read of a prediction matrix found in pianoroll_to_note_sequence'
    ctx.ob(rule, fi, fi.node, False, why, construct='matrix reads use one column', unknown=why)


def column_in_range(ctx, fi, loop, v):
  """Scenario form of "notes outside the pitch range are ignored": with min_pitch = 21 and max_pitch = 108, a note of pitch 20
  (column -1: numpy wraps it to the last column) or 109 (one past the last column) must not reach any store whose column is computed
  from the note's pitch.  The guards on the way to each store (earlier `continue` exits included) are evaluated with those
  values; guards that say nothing about the pitch or the range are left open."""
  from sa import pitfalls, scenario
  rule = 'SKIP/column-in-range'
  ptxt = '%s.pitch' % v
  stores = []
  for st in U.walk_stmts(loop):
    tgts = st.targets if isinstance(st, ast.Assign) else ([st.target] if isinstance(st, ast.AugAssign) else [])
    for t in tgts:
      if isinstance(t, ast.Subscript) and isinstance(t.slice, ast.Tuple) and len(t.slice.elts) == 2:
        col = U.expand_locals(fi.node, t.slice.elts[1], at=st)
        if any(norm_text(n) == ptxt for n in ast.walk(col)):
          stores.append((st, t, col))
  if not stores:
    why = 'cannot classify: no store into a roll column computed from %s was found in the note loop' % ptxt
    ctx.ob(rule, fi, loop, False, why, construct='out-of-range pitches reach no roll column', unknown=why)
    return
  for label, pitch in (('below min_pitch', 20), ('above max_pitch', 109)):
    sub = {ptxt: nf.rat(E(str(pitch))), 'min_pitch': nf.rat(E('21')), 'max_pitch': nf.rat(E('108'))}
    reached, opaque = [], []
    for st, t, col in stores:
      admitted = True
      for g, pol in pitfalls.guards_at(fi.node, t):
        gx = U.expand_locals(fi.node, g, at=st)
        if not any(norm_text(n) in sub for n in ast.walk(gx)):
          continue
        val = scenario.fold_numeric(gx, sub)
        if val is None:
          opaque.append(norm_text(g))
          admitted = None
          break
        if bool(val) != pol:
          admitted = False
          break
      if admitted:
        reached.append((st, scenario.fold_numeric(col, sub)))
    cons = 'a note %s reaches no roll column' % label
    if reached:
      st, c = reached[0]
      ctx.ob(rule, fi, st, False, 'with min_pitch = 21 and max_pitch = 108 a note of pitch %d is not skipped: no condition on the way to `%s` excludes it, and it is written into column %s '
             '(%s): "notes outside the pitch range are ignored"' % (pitch, norm_text(st)[:70], c, 'numpy counts a negative column from the end' if pitch < 21 else 'past the last column: IndexError'),
             construct=cons, definite=True)
    elif opaque:
      why = 'cannot classify: the condition(s) %s on the way to the column stores cannot be evaluated for a note of pitch %d' % (', '.join(sorted(set(opaque)))[:120], pitch)
      ctx.ob(rule, fi, loop, False, why, construct=cons, unknown=why)
    else:
      ctx.ob(rule, fi, loop, True, 'with min_pitch = 21 and max_pitch = 108 a note of pitch %d is excluded on the way to each of the %d stores into a pitch column' % (pitch, len(stores)), construct=cons)


def run(ctx):
  position_in_selection_is_not_the_frame(ctx)
  one_column_index(ctx)
  velocity_rows_are_active_rows(ctx)
  ignored_notes_cannot_raise(ctx, 'SKIP/ignored-notes-cannot-raise')
  onset_label_clamp(ctx, ctx.func(SL + ':sequence_to_pianoroll'))
  delay_reaches_every_mode(ctx, ctx.func(SL + ':sequence_to_pianoroll'))
  encoder(ctx)
  decoder(ctx)


def encoder(ctx):
  fi = ctx.func(SL + ':sequence_to_pianoroll')
  fi = Canon(fi, roles.discover(fi, {
      'roll': lambda fn: [k.value.id for c in U.calls_in(fn) if dotted(c.func) == 'Pianoroll' for k in c.keywords if k.arg == 'active' and isinstance(k.value, ast.Name)],
  }, required=False))
  ff = roles.nested(fi, 'frames_from_times')
  ctx.require(ff is not None, 'sequence_to_pianoroll: frames_from_times helper not found')
  st_p, en_p = ff.params()
  frame_scenarios(ctx, ff, st_p, en_p)
  ret = ff.node.body[-1]
  ctx.require(isinstance(ret, ast.Return) and isinstance(ret.value, ast.Tuple) and len(ret.value.elts) == 2, 'frames_from_times: expected `return start, end`')
  sname, ename = [norm_text(e) for e in ret.value.elts]
  sdefs = [s for s in ff.node.body if isinstance(s, ast.Assign) and norm_text(s.targets[0]) == sname]
  edefs = [s for s in ff.node.body if isinstance(s, ast.Assign) and norm_text(s.targets[0]) == ename]
  ctx.require(sdefs and edefs, 'frames_from_times: frame definitions not found')
  cls, inner = rounding_class(sdefs[0].value)
  inner = cov.resolve_value(ff.node, inner, sdefs[0])
  ok = cls == 'floor' and nf.equal(inner, E('%s * frames_per_second' % st_p))
  ctx.ob('FRAME/start-floor', ff, sdefs[0], ok, 'start frame = floor(start * fps)' if ok else 'the start frame is %s of %s, not floor(start_time * frames_per_second)' % (cls, norm_text(inner)))
  cls, inner = rounding_class(edefs[0].value)
  inner = cov.resolve_value(ff.node, inner, edefs[0])
  ok = cls == 'ceil' and nf.equal(inner, E('%s * frames_per_second' % en_p))
  ctx.ob('FRAME/end-ceil', ff, edefs[0], ok, 'end frame = ceil(end * fps)' if ok else 'the end frame is %s of %s, not ceil(end_time * frames_per_second)' % (cls, norm_text(inner)))
  last = edefs[-1]
  ok = isinstance(last.value, ast.Call) and dotted(last.value.func) == 'max' and len(last.value.args) == 2
  definite = False
  why_bad = 'the final end frame is not max(start_frame + 1, end_frame): a note may get no frame'
  if ok:
    args = [nf.rat(a) for a in last.value.args]
    ok = any(a.equals(nf.rat(E(sname + ' + 1'))) for a in args) and any(a.equals(nf.rat(E(ename))) for a in args)
    ok = ok and ff.node.body.index(last) == len(ff.node.body) - 2
  # sibling idiom: `if <end does not exceed start>: end = start + 1` as the last statement before the return
  g = ff.node.body[-2] if len(ff.node.body) >= 2 and isinstance(ff.node.body[-2], ast.If) and not ff.node.body[-2].orelse else None
  if not ok and g is not None and len(g.body) == 1 and isinstance(g.body[0], ast.Assign) and norm_text(g.body[0].targets[0]) == ename:
    try:
      sets = nf.rat(g.body[0].value).equals(nf.rat(E(sname + ' + 1')))
      c = nf.compare_nf(g.test)
      if sets and c is not None:
        if nf.compare_equal(c, nf.compare_nf(E('%s <= %s' % (ename, sname)))):
          ok, last = True, g
        else:
          # the clamp was located, its condition is one comparison of the two frames, and it is not "end <= start"
          definite, last = True, g
          why_bad = ('the one-frame minimum is applied only when %s, not whenever end_frame <= start_frame: a note whose end frame falls below its start frame gets no frame' %
                     norm_text(g.test))
    except nf.NFError:
      pass
  ctx.ob('FRAME/at-least-one', ff, last, ok, 'the end frame is raised to start + 1 whenever it does not exceed the start frame, as the last step' if ok else why_bad, definite=definite)
  # occupancy adjustments only under min_frame_occupancy_for_label > 0
  adj = [s for s in ff.node.body if isinstance(s, ast.If)]
  ok = all('0.0 < min_frame_occupancy_for_label' in norm_text(s.test) for s in adj)
  ctx.ob('FRAME/occupancy-optional', ff, adj[0] if adj else ff.node, ok, 'frame adjustments apply only when min_frame_occupancy_for_label > 0' if ok else 'the frame indices are adjusted even with the default occupancy 0')
  # allocations
  allocs = [c for c in U.calls_in(fi.node) if (dotted(c.func) or '') in ('np.zeros', 'numpy.zeros') and c.args and isinstance(c.args[0], ast.Tuple)]
  ctx.require(len(allocs) >= 2, 'sequence_to_pianoroll: roll allocations not found')
  for c in allocs:
    rows = U.expand_locals(fi.node, c.args[0].elts[0], None)     # a hoisted `num_frames = ...` is looked through
    cls, inner = rounding_class(rows)
    if cls is None and isinstance(rows, ast.BinOp) and isinstance(rows.op, ast.Add):
      # floor(e) + k == floor(e + k) for an integer k (same for ceil); round(e) + k stays a rounding to the nearest
      for a_, b_ in ((rows.left, rows.right), (rows.right, rows.left)):
        k_ = U.const_value(b_)
        c2, i2 = rounding_class(a_)
        if isinstance(k_, int) and c2 is not None:
          cls, inner = c2, ast.BinOp(left=i2, op=ast.Add(), right=ast.Constant(value=k_))
    ok = cls == 'floor' and nf.equal(inner, E('sequence.total_time * frames_per_second + 1'))
    understood = False
    if not ok and cls in ('floor', 'ceil', 'round'):
      try:
        nf.rat(inner)
        understood = True       # the row count is a rounding of a rational expression of total_time and fps, and it is a different one
      except nf.NFError:
        understood = False
    ctx.ob('ALLOC/rows', fi, c, ok, 'rows = int(total_time * fps + 1)' if ok else 'the roll has %s rows, not int(total_time * frames_per_second + 1)' % norm_text(rows), definite=understood)
  roll = [c for c in allocs if len(c.args[0].elts) == 2 and norm_text(c.args[0].elts[1]) != '128']
  ok = bool(roll) and nf.equal(roll[0].args[0].elts[1], E('max_pitch - min_pitch + 1'))
  ctx.ob('ALLOC/columns', fi, roll[0] if roll else fi.node, ok, 'columns = max_pitch - min_pitch + 1' if ok else 'the roll does not have max_pitch - min_pitch + 1 columns')
  # pitch range skip dominates every store
  loop = next((n for n in fi.node.body if isinstance(n, ast.For) and 'notes' in norm_text(n.iter)), None)
  ctx.require(loop is not None, 'sequence_to_pianoroll: note loop not found')
  v = loop.target.id
  first = loop.body[0]
  parts = first.test.values if isinstance(first, ast.If) and isinstance(first.test, ast.BoolOp) and isinstance(first.test.op, ast.Or) else []
  ok = isinstance(first, ast.If) and isinstance(first.body[-1], ast.Continue) and len(parts) == 2 and \
      any(has(p, '%s.pitch < min_pitch' % v) for p in parts) and any(has(p, '%s.pitch > max_pitch' % v) for p in parts)
  ctx.ob('SKIP/out-of-range', fi, first, ok, 'pitches outside [min_pitch, max_pitch] are skipped before any store' if ok else
         'the first statement of the note loop is not "pitch < min_pitch or pitch > max_pitch -> continue": out-of-range pitches reach the array stores (negative column = wraps)')
  column_in_range(ctx, fi, loop, v)
  # location-independent: the onset window is written as the slice [start:end) of the onset roll; `end` is exclusive, so the largest
  # value it must be able to take is the number of rows.  A clamp of that bound to rows - 1 (np.clip / min with len(roll) - 1 or
  # shape[0] - 1) cuts the last frame out of every window: a note whose onset falls on the final frame gets no onset at all
  for c in U.calls_in(fi.node):
    d = dotted(c.func) or ''
    hi = None
    if d.split('.')[-1] == 'clip' and len(c.args) >= 3:
      hi = c.args[2]
    elif d == 'min':
      hi = next((a for a in c.args if '.shape[0]' in norm_text(a) or 'len(' in norm_text(a)), None)
    if hi is None:
      continue
    try:
      h = nf.rat(U.expand_locals(fi.node, hi, at=c))
    except nf.NFError:
      continue
    rows = [a for a in h.atoms() if a.endswith('.shape[0]') or a.startswith('len(')]
    if len(rows) != 1:
      continue
    off = (h - nf.Rat(nf.Poly.atom(rows[0]))).const_value()
    if off is None:
      continue
    # does the clamped value become the (exclusive) upper bound of a slice?
    st = c
    pm = U.parents(fi.node)
    while st is not None and not isinstance(st, ast.stmt):
      st = pm.get(id(st))
    names = set(n.id for t, _v, _o in U.store_targets(st) for n in ast.walk(t) if isinstance(n, ast.Name)) if st is not None else set()
    uppers = set(norm_text(s_.slice.elts[0].upper) if isinstance(s_.slice, ast.Tuple) and isinstance(s_.slice.elts[0], ast.Slice) and s_.slice.elts[0].upper is not None else
                 (norm_text(s_.slice.upper) if isinstance(s_.slice, ast.Slice) and s_.slice.upper is not None else None)
                 for s_ in ast.walk(fi.node) if isinstance(s_, ast.Subscript))
    if not (names & uppers):
      continue
    ok = off >= 0
    ctx.ob('WINDOW/end-clamp', fi, c, ok, 'the exclusive end of the window is clamped to the number of rows' if ok else
           '%s clamps a value that is used as the exclusive end of a slice (%s) to %s, i.e. rows %+d: the last frame of the roll can never be inside the window, so a note whose '
           'onset lies on the final frame has no onset' % (norm_text(c)[:80], ', '.join(sorted(names & uppers)), norm_text(hi), off), construct='exclusive end clamped to rows', definite=True)
  # onset window
  ws = [s for s in U.walk_stmts(loop) if isinstance(s, ast.Assign) and isinstance(s.value, ast.Call) and dotted(s.value.func) in ('max', 'min') and 'onset_window' in norm_text(s.value)]
  got = {}
  for s in ws:
    got[dotted(s.value.func)] = s
  ok = False
  if 'max' in got and 'min' in got:
    base = None
    for a in got['max'].value.args:
      if U.const_value(a) is None:
        try:
          r = nf.rat(a) + nf.rat(E('onset_window'))
          if len(r.atoms()) == 1:
            base = r
        except nf.NFError:
          pass
    hi_ok = False
    if base is not None:
      for a in got['min'].value.args:
        try:
          if nf.rat(a).equals(base + nf.rat(E('onset_window + 1'))):
            hi_ok = True
        except nf.NFError:
          pass
    ok = base is not None and hi_ok and any(U.const_value(a) == 0 for a in got['max'].value.args) and any('.shape[0]' in norm_text(a) for a in got['min'].value.args)
  ctx.ob('WINDOW/onset', fi, got.get('max', loop), ok, 'onset frames = [f - w, f + w + 1) clipped to [0, rows)' if ok else 'the onset window is not [f - onset_window, f + onset_window + 1) clipped to the roll')
  vs = [s for s in U.walk_stmts(loop) if isinstance(s, ast.Assign) and isinstance(s.targets[0], ast.Subscript) and norm_text(s.value) == '%s.velocity / max_velocity' % v]
  ctx.ob('VELO/scale', fi, vs[0] if vs else loop, len(vs) == 1, 'active velocity = velocity / max_velocity' if vs else 'velocities are not stored as velocity / max_velocity')
  st = [s for s in U.walk_stmts(loop) if isinstance(s, ast.Assign) and isinstance(s.targets[0], ast.Subscript) and norm_text(s.targets[0].value) == 'roll' and
        isinstance(s.targets[0].slice, ast.Tuple) and isinstance(s.targets[0].slice.elts[0], ast.Slice)]
  ok = len(st) == 1 and U.const_value(st[0].value) == 1
  if ok:
    sl = st[0].targets[0].slice.elts
    call = [s for s in loop.body if isinstance(s, ast.Assign) and isinstance(s.value, ast.Call) and dotted(s.value.func) == 'frames_from_times' and
            [norm_text(a) for a in s.value.args] == ['%s.start_time' % v, '%s.end_time' % v]]
    ok = len(call) == 1 and isinstance(call[0].targets[0], ast.Tuple) and [norm_text(e) for e in call[0].targets[0].elts] == [norm_text(sl[0].lower), norm_text(sl[0].upper)] and \
        nf.equal(sl[1], E('%s.pitch - min_pitch' % v))
  ctx.ob('WINDOW/active', fi, st[0] if st else loop, ok, 'the note is active in [start_frame, end_frame) of column pitch - min_pitch' if ok else
         'the active roll is not painted with 1 over [start_frame, end_frame) x (pitch - min_pitch) from frames_from_times(start_time, end_time)')


def start_frame_zero(ctx, fi):
  """Location-independent: pitch_start_step holds, per sounding pitch, the frame in which its note began - frame 0 for a note that
  begins with the roll.  Whether a pitch is sounding is membership (or a sentinel), never the *truth* of the stored frame:
  `not pitch_start_step.get(pitch)` / `if pitch_start_step[pitch]` read a note that started in frame 0 as "not sounding"."""
  fn = fi.node
  pm = U.parents(fn)
  n = 0
  for x in ast.walk(fn):
    val = None
    if isinstance(x, ast.Call) and isinstance(x.func, ast.Attribute) and x.func.attr == 'get' and norm_text(x.func.value) == 'pitch_start_step' and (
        len(x.args) == 1 or (len(x.args) == 2 and isinstance(x.args[1], ast.Constant) and x.args[1].value is None)):
      val = x
    elif isinstance(x, ast.Subscript) and norm_text(x.value) == 'pitch_start_step' and isinstance(x.ctx, ast.Load):
      val = x
    if val is None:
      continue
    par = pm.get(id(val))
    tested = (isinstance(par, ast.UnaryOp) and isinstance(par.op, ast.Not)) or (isinstance(par, ast.BoolOp)) or (isinstance(par, (ast.If, ast.While, ast.IfExp)) and par.test is val)
    if tested:
      n += 1
      ctx.ob('DEC/start-frame-zero-is-a-frame', fi, par if isinstance(par, ast.expr) else val, False, '%s tests the truth of the stored start frame: a note that began in frame 0 is taken for '
             '"not sounding", so it is started again (losing its first frame) or, with onset predictions, dropped' % norm_text(par if isinstance(par, ast.expr) else val)[:70],
             construct='sounding is membership in pitch_start_step, not the truth of the start frame', definite=True)
  if n == 0:
    ctx.ob('DEC/start-frame-zero-is-a-frame', fi, fn, True, 'no truth test on a stored start frame', construct='sounding is membership in pitch_start_step, not the truth of the start frame')


def onset_label_clamp(ctx, fi):
  """Location-independent: in onset_mode 'length_ms' the onset label runs from the *delayed* start to min(delayed end, delayed
  start + onset_length).  Both arguments of the clamp carry onset_delay_ms; clamping against the undelayed note end cuts the
  label of a short, delayed note before it has begun.  The two arguments of the min that defines the label end are expanded and
  compared in normal form with note.end_time + delay and note.start_time + delay + length."""
  fn = fi.node
  cons = 'length_ms: onset label end = min(end + delay, start + delay + length)'
  cands = []
  for st in U.walk_stmts(fn, into_nested=False):
    if isinstance(st, ast.Assign) and isinstance(st.value, ast.Call) and dotted(st.value.func) == 'min' and len(st.value.args) == 2 and \
        any(p and isinstance(t, ast.Compare) and any(isinstance(c, ast.Constant) and c.value == 'length_ms' for c in ast.walk(t)) for t, p in U.path_conditions(fn, st)):
      cands.append(st)
  if not cands:
    why = 'cannot classify: no clamp min(a, b) found on the length_ms path'
    ctx.ob('WINDOW/onset-length-clamp', fi, fn, False, why, construct=cons, unknown=why)
    return
  st = cands[0]
  # expand every local except the one being re-assigned by this statement (its earlier definition is what the clamp reads)
  tgt = norm_text(st.targets[0])
  prev = U.reaching_def(fn, tgt, st) if isinstance(st.targets[0], ast.Name) else None
  args = []
  for a in st.value.args:
    if isinstance(a, ast.Name) and a.id == tgt and prev is not None:
      a = prev
    args.append(U.expand_locals(fn, a, at=st))
  try:
    v = next(lp.target.id for lp in U.enclosing_loops(fn, st) if isinstance(lp, ast.For) and isinstance(lp.target, ast.Name))
    want = [nf.rat(E('%s.end_time + onset_delay_ms / 1000' % v)), nf.rat(E('%s.start_time + onset_delay_ms / 1000 + onset_length_ms / 1000' % v))]
    got = [nf.rat(a) for a in args]
    ok = (got[0].equals(want[0]) and got[1].equals(want[1])) or (got[0].equals(want[1]) and got[1].equals(want[0]))
    undelayed = any(g.equals(nf.rat(E('%s.end_time' % v))) for g in got)
    ctx.ob('WINDOW/onset-length-clamp', fi, st, ok, 'the label end is min(delayed end, delayed start + length)' if ok else
           'the onset label end is min(%s, %s): %s' % (norm_text(args[0])[:50], norm_text(args[1])[:60],
                                                         'the note end is taken without onset_delay_ms while the label starts at the delayed start, so the label of a short delayed note is cut short or empty'
                                                         if undelayed else 'not min(end + delay, start + delay + length)'), construct=cons, definite=undelayed,
           unknown=None if (ok or undelayed) else 'cannot classify: the clamp arguments are %s and %s' % (norm_text(args[0])[:50], norm_text(args[1])[:50]))
  except (nf.NFError, StopIteration):
    why = 'cannot classify: the clamp %s' % norm_text(st)[:80]
    ctx.ob('WINDOW/onset-length-clamp', fi, st, False, why, construct=cons, unknown=why)


def delay_reaches_every_mode(ctx, fi, rule='WINDOW/delay-in-every-mode'):
  """Location-independent: onset_delay_ms moves the onset label in *every* onset mode ('window' centres the window on the frame of the
  delayed start, 'length_ms' starts the label there).  A def-use closure per arm of the `onset_mode` dispatch: the bounds of the slice
  written into `onsets[...]` are followed back through the assignments of the arm (for names the arm assigns) and of the rest of the
  function (for the others, nested helpers read through their free names); an arm from which onset_delay_ms is not reachable labels the
  undelayed note."""
  fn = fi.node
  cons = 'the onset label depends on onset_delay_ms in every onset mode'
  if 'onset_delay_ms' not in [a.arg for a in fn.args.args + fn.args.kwonlyargs]:
    why = 'cannot classify: no parameter onset_delay_ms'
    ctx.ob(rule, fi, fn, False, why, construct=cons, unknown=why)
    return
  # the dispatch: an if-chain on onset_mode
  arms = []
  for st in U.walk_stmts(fn, into_nested=False):
    if isinstance(st, ast.If) and isinstance(st.test, ast.Compare) and isinstance(st.test.left, ast.Name) and st.test.left.id == 'onset_mode' and not arms:
      cur = st
      while True:
        mode = next((c.value for c in ast.walk(cur.test) if isinstance(c, ast.Constant) and isinstance(c.value, str)), None)
        arms.append((mode, cur.body, cur))
        if len(cur.orelse) == 1 and isinstance(cur.orelse[0], ast.If) and isinstance(cur.orelse[0].test, ast.Compare) and isinstance(cur.orelse[0].test.left, ast.Name) and cur.orelse[0].test.left.id == 'onset_mode':
          cur = cur.orelse[0]
        else:
          break
  # the onset array is the one whose stored slice is bounded by names the arms of the dispatch assign (whatever it is called)
  arm_names = set(t.id for _m, body_, _n in arms for b_ in body_ for x_ in ast.walk(b_) if isinstance(x_, ast.Assign) for t0 in x_.targets for t in ast.walk(t0) if isinstance(t, ast.Name))
  slices = [t for st in U.walk_stmts(fn, into_nested=False) if isinstance(st, (ast.Assign, ast.AugAssign)) for t in (st.targets if isinstance(st, ast.Assign) else [st.target])
            if isinstance(t, ast.Subscript) and isinstance(t.value, ast.Name) and any(isinstance(x_, ast.Slice) for x_ in ast.walk(t.slice)) and
            arm_names & set(x_.id for x_ in ast.walk(t.slice) if isinstance(x_, ast.Name))]
  if not arms or not slices:
    why = 'cannot classify: no if-chain on onset_mode, or no slice store bounded by what its arms assign'
    ctx.ob(rule, fi, fn, False, why, construct=cons, unknown=why)
    return
  start = set(x.id for t_ in slices for x in ast.walk(t_.slice) if isinstance(x, ast.Name) and x.id in arm_names)
  nested = dict((d.name, d) for d in ast.walk(fn) if isinstance(d, (ast.FunctionDef, ast.Lambda)) and d is not fn and hasattr(d, 'name'))
  def assigns_in(stmts):
    out = {}
    for top in stmts:
      for x in ast.walk(top):
        if isinstance(x, (ast.FunctionDef, ast.Lambda)):
          continue
        tg, val = [], None
        if isinstance(x, ast.Assign):
          tg, val = x.targets, x.value
        elif isinstance(x, (ast.AugAssign, ast.AnnAssign)) and x.value is not None:
          tg, val = [x.target], x.value
        elif isinstance(x, ast.For):
          tg, val = [x.target], x.iter
        elif isinstance(x, ast.NamedExpr):
          tg, val = [x.target], x.value
        for t in tg:
          for n in ast.walk(t):
            if isinstance(n, ast.Name):
              out.setdefault(n.id, []).append(val)
    return out
  all_arm_nodes = set(id(x) for _m, body, _n in arms for b in body for x in ast.walk(b))
  outside = [st for st in fn.body]
  glob = {}
  for name, vals in assigns_in(outside).items():
    glob[name] = [v for v in vals if id(v) not in all_arm_nodes]
  def names_of(e):
    out = set()
    for x in ast.walk(e):
      if isinstance(x, ast.Name):
        out.add(x.id)
        if x.id in nested:
          out |= set(y.id for y in ast.walk(nested[x.id]) if isinstance(y, ast.Name))
    return out
  for mode, body, node in arms:
    if body and all(isinstance(b, ast.Raise) for b in body):
      continue
    local = assigns_in(body)
    seen, todo = set(), list(start)
    while todo:
      n = todo.pop()
      if n in seen:
        continue
      seen.add(n)
      for v in (local[n] if n in local else glob.get(n, [])):
        todo.extend(names_of(v) - seen)
    assigned_here = start & set(local)
    if not assigned_here:
      why = 'cannot classify: the %r arm does not assign the bounds of the onsets slice' % mode
      ctx.ob(rule, fi, node, False, why, construct=cons + ' (%r)' % mode, unknown=why)
      continue
    ok = 'onset_delay_ms' in seen
    ctx.ob(rule, fi, node, ok, 'onset_delay_ms reaches the bounds of the onsets slice in mode %r' % mode if ok else
           'in onset mode %r the bounds of the onsets slice (%s) are computed from %s - onset_delay_ms is not among the values they depend on, so a delayed onset label is painted at the '
           'undelayed start of the note' % (mode, ', '.join(sorted(assigned_here)), ', '.join(sorted(seen - start))[:120]), construct=cons + ' (%r)' % mode, definite=True)


def position_in_selection_is_not_the_frame(ctx, rule='DEC/position-in-selection-is-not-the-frame'):
  """Location-independent (expected count on today's tree: 0; the kept patch C18_t is the positive example in the thorough tier): the
  decoders turn a *frame number* into a time and use it to read the velocity of that frame.  `for k, row in enumerate(roll[selected])`
  numbers the rows of the selection 0, 1, 2, ... - k is the frame number only when nothing was left out.  A counter of an enumerate
  over `A[S]` (S an index array or mask, not a slice) that is used in arithmetic or as a subscript of another array is reported."""
  n = 0
  for q in ('pianoroll_onsets_to_note_sequence', 'pianoroll_to_note_sequence'):
    try:
      fi = ctx.func(SL + ':' + q)
    except Exception:      # pylint: disable=broad-except
      continue
    fn = fi.node
    for lp in ast.walk(fn):
      if not (isinstance(lp, ast.For) and isinstance(lp.iter, ast.Call) and dotted(lp.iter.func) == 'enumerate' and lp.iter.args and isinstance(lp.target, ast.Tuple) and
              len(lp.target.elts) == 2 and isinstance(lp.target.elts[0], ast.Name)):
        continue
      sel = lp.iter.args[0]
      if not (isinstance(sel, ast.Subscript) and not isinstance(sel.slice, (ast.Slice, ast.Constant)) and
              not (isinstance(sel.slice, ast.Tuple) and all(isinstance(e, (ast.Slice, ast.Constant)) for e in sel.slice.elts))):
        continue
      if len(lp.iter.args) > 1 or lp.iter.keywords:
        continue
      k = lp.target.elts[0].id
      uses = []
      for x in ast.walk(ast.Module(body=lp.body, type_ignores=[])):
        if isinstance(x, ast.Subscript) and any(isinstance(y, ast.Name) and y.id == k for y in ast.walk(x.slice)) and norm_text(x.value) != norm_text(sel.slice):
          base = U.expand_locals(fn, x.value, at=lp) if isinstance(x.value, ast.Name) else x.value
          if any(isinstance(b_, ast.Subscript) and norm_text(b_.slice) == norm_text(sel.slice) for b_ in ast.walk(base)):
            continue      # an array cut down by the same selection: its rows are numbered like the enumerated ones
          uses.append(x)
        elif isinstance(x, ast.BinOp) and any(isinstance(y, ast.Name) and y.id == k for y in (x.left, x.right)):
          uses.append(x)
      n += 1
      cons = '%s: a position in a selection is not used as a frame number' % q
      ctx.ob(rule, fi, uses[0] if uses else lp, not uses, 'the counter of enumerate(%s) is not used as a frame number' % norm_text(sel)[:40] if not uses else
             '`%s` uses %s, the position of a row within the selection %s, as if it were the frame number: every frame the selection leaves out before it shifts the time and the velocity row read '
             'for all later notes by one frame' % (norm_text(uses[0])[:50], k, norm_text(sel)[:40]), construct=cons, definite=True)
  if n == 0:
    fi = ctx.func(SL + ':pianoroll_onsets_to_note_sequence')
    ctx.ob(rule, fi, fi.node, True, 'no enumerate over a selected part of a roll in the decoders', construct='a position in a selection is not used as a frame number')


def silent_start(ctx, fi):
  """Location-independent: "with onset predictions a note begins only at a predicted onset" - for a pitch that is *not* sounding the
  start condition is the onset prediction of the frame itself.  Only for a pitch that is already sounding does the previous frame
  matter (a fresh onset restarts the note).  A start of a possibly silent pitch that is guarded by a rising-edge quantity
  (onsets[i - 1], np.roll / np.diff of the onsets, or a name computed from one) misses the note when the onset lasts several
  frames and the pitch was silenced - e.g. by a predicted offset - in the earlier of them."""
  fn = fi.node
  edge_names = set()

  def edge(x):
    for n in ast.walk(x):
      if isinstance(n, ast.Subscript) and 'onset' in norm_text(n.value) and any(
          isinstance(b, ast.BinOp) and isinstance(b.op, ast.Sub) and U.const_value(b.right) == 1 for b in ast.walk(n.slice)):
        return True
      if isinstance(n, ast.Call) and (dotted(n.func) or '').split('.')[-1] in ('roll', 'diff') and any('onset' in norm_text(a) for a in n.args):
        return True
      if isinstance(n, ast.Name) and n.id in edge_names:
        return True
    return False
  changed = True
  while changed:
    changed = False
    for s in ast.walk(fn):
      if isinstance(s, ast.Assign) and len(s.targets) == 1 and isinstance(s.targets[0], ast.Name) and s.targets[0].id not in edge_names and edge(s.value):
        edge_names.add(s.targets[0].id)
        changed = True
  scopes = [fn] + [d for d in ast.walk(fn) if isinstance(d, ast.FunctionDef) and d is not fn]
  seen = set()
  # "not sounding" may be absence from a mapping or a sentinel value in an array: the values pitch_start_step[...] is compared with
  sentinels = set()
  for c_ in ast.walk(fn):
    if isinstance(c_, ast.Compare) and len(c_.ops) == 1 and isinstance(c_.ops[0], (ast.Eq, ast.NotEq)):
      for a_, b_ in ((c_.left, c_.comparators[0]), (c_.comparators[0], c_.left)):
        if isinstance(a_, ast.Subscript) and norm_text(a_.value) == 'pitch_start_step':
          sentinels.add(norm_text(b_))
  for sc in scopes[1:] + scopes[:1]:
    for s in U.walk_stmts(sc):
      if id(s) in seen or not (isinstance(s, ast.Assign) and len(s.targets) == 1 and isinstance(s.targets[0], ast.Subscript) and norm_text(s.targets[0].value) == 'pitch_start_step'):
        continue
      seen.add(id(s))
      if norm_text(s.value) in sentinels:
        continue          # the store that marks the pitch as silent again, not a start
      conds = [(U.expand_locals(sc, t, at=s), p) for t, p in U.path_conditions(sc, s)]
      flat = []
      for t, p in conds:      # a temporary may expand to a conjunction
        if isinstance(t, ast.BoolOp) and isinstance(t.op, ast.And) and p:
          flat.extend((v_, True) for v_ in t.values)
        elif isinstance(t, ast.BoolOp) and isinstance(t.op, ast.Or) and not p:
          flat.extend((v_, False) for v_ in t.values)
        else:
          flat.append((t, p))
      conds = flat
      key = norm_text(s.targets[0].slice)
      def member(t, pol):
        """True: the condition says the pitch is sounding; False: it says it is silent; None: it says nothing about it."""
        if not (isinstance(t, ast.Compare) and len(t.ops) == 1):
          return None
        if norm_text(t.comparators[0]) == 'pitch_start_step' and norm_text(t.left) == key and isinstance(t.ops[0], (ast.In, ast.NotIn)):
          return isinstance(t.ops[0], ast.In) == pol
        for a_, b_ in ((t.left, t.comparators[0]), (t.comparators[0], t.left)):
          if isinstance(a_, ast.Subscript) and norm_text(a_.value) == 'pitch_start_step' and norm_text(a_.slice) == key and norm_text(b_) in sentinels and \
              isinstance(t.ops[0], (ast.Eq, ast.NotEq)):
            return isinstance(t.ops[0], ast.NotEq) == pol
        return None
      said = [m_ for m_ in (member(t, pol) for t, pol in conds) if m_ is not None]
      sounding = any(said)
      edges = [t for t, _p in conds if edge(t) and not (isinstance(t, ast.Compare) and isinstance(t.ops[0], (ast.Is, ast.IsNot)))]
      ok = sounding or not edges
      # nothing on the path excludes a silent pitch: the start applies to it (located) - unless the path tests pitch_start_step in a form that is not recognised
      if not ok and not said and any('pitch_start_step' in norm_text(t) for t, _p in conds):
        why = 'cannot classify: the start %s is guarded by a previous-frame quantity, and its path tests pitch_start_step in a form that does not say whether the pitch is sounding' % norm_text(s)[:60]
        ctx.ob('DEC/silent-pitch-start', fi, s, False, why, construct='start condition of a silent pitch', unknown=why)
        continue
      ctx.ob('DEC/silent-pitch-start', fi, s, ok, 'a %s pitch starts a note %s' % ('sounding' if sounding else 'silent', 'on a fresh onset' if edges else 'without looking at the previous frame') if ok else
             'a pitch that is not known to be sounding starts a note only if %s, a quantity derived from the previous frame\'s onset: a predicted onset that lasts several frames does not '
             'start a note on a pitch silenced in its earlier frame' % ' and '.join(norm_text(t) for t in edges), construct='start condition of a silent pitch', definite=True)


def decoder(ctx):
  fi = ctx.func(SL + ':pianoroll_to_note_sequence')
  fi = Canon(fi, roles.discover(fi, {
      'pitch_start_step': lambda fn: roles.assigned_where(fn, lambda v, st: isinstance(v, ast.Dict) and not v.keys),
  }, required=False))
  fn = fi.node
  silent_start(ctx, fi)
  start_frame_zero(ctx, fi)
  fl = [s for s in fn.body if isinstance(s, ast.Assign) and isinstance(s.targets[0], ast.Name) and isinstance(s.value, ast.BinOp) and isinstance(s.value.op, ast.Div) and
        norm_text(s.value.right) == 'frames_per_second']
  ok = len(fl) == 1 and U.const_value(fl[0].value.left) == 1
  ctx.ob('DEC/frame-length', fi, fl[0] if fl else fn, ok, 'frame length = 1 / fps (reciprocal of the encoder scale)' if ok else 'the decoder frame length is not 1 / frames_per_second')
  flen = fl[0].targets[0].id if fl else 'frame_length_seconds'
  ep = roles.nested(fi, 'end_pitch')
  ctx.require(ep is not None, 'pianoroll_to_note_sequence: end_pitch helper not found')
  p_pitch, p_end = ep.params()
  env = {}
  for s in ep.node.body:
    if isinstance(s, ast.Assign) and isinstance(s.targets[0], ast.Name):
      env[s.targets[0].id] = s.value
  stores = {norm_text(s.targets[0]).split('.')[-1]: s for s in U.walk_stmts(ep.node) if isinstance(s, ast.Assign) and isinstance(s.targets[0], ast.Attribute)}
  ok = False
  try:
    ok = nf.Builder(dict(env)).rat(stores['start_time'].value).equals(nf.rat(E('pitch_start_step[%s] * %s' % (p_pitch, flen)))) and \
        nf.Builder(dict(env)).rat(stores['end_time'].value).equals(nf.rat(E('%s * %s' % (p_end, flen))))
  except (nf.NFError, KeyError):
    ok = False
  ctx.ob('DEC/times', ep, ep.node, ok, 'note = [start frame, end frame) * frame length' if ok else 'decoded times are not frame index * frame length')
  g = next((s for s in ep.node.body if isinstance(s, ast.If)), None)
  okd = False
  if g is not None:
    try:
      c = nf.compare_nf(g.test, dict(env))
      want = nf.compare_nf(E('(%s * L - S0 * L) * 1000 >= min_duration_ms' % p_end), {'L': E(flen), 'S0': E('pitch_start_step[%s]' % p_pitch)})
      okd = nf.compare_equal(c, want)
    except nf.NFError:
      okd = False
  ctx.ob('DEC/min-duration', ep, g or ep.node, okd, 'a note is kept iff its duration in ms is >= min_duration_ms' if okd else 'the minimum-duration test is not (end - start) * 1000 >= min_duration_ms')
  ok = 'pitch' in stores and nf.equal(stores['pitch'].value, E('%s + min_midi_pitch' % p_pitch))
  ctx.ob('DEC/pitch', ep, stores.get('pitch', ep.node), ok, 'pitch = column + min_midi_pitch' if ok else 'the decoded pitch is not column + min_midi_pitch')
  # trailing silent frame before the loop
  loop = next((n for n in fn.body if isinstance(n, ast.For) and isinstance(n.iter, ast.Call) and dotted(n.iter.func) == 'enumerate'), None)
  ctx.require(loop is not None, 'pianoroll_to_note_sequence: decode loop not found')
  pads = [s for s in U.walk_stmts(fn) if isinstance(s, ast.Assign) and isinstance(s.value, ast.Call) and dotted(s.value.func) in ('np.append', 'numpy.append') and 'np.zeros' in norm_text(s.value)]
  names = [norm_text(s.targets[0]) for s in pads]
  ok = 'frames' in names and all(s.lineno < loop.lineno for s in pads)
  ctx.ob('DEC/silent-frame', fi, pads[0] if pads else fn, ok, 'a silent frame is appended before the decode loop (open notes are closed by it)' if ok else
         'no silent frame is appended to `frames` before the decode loop: notes sounding in the last frame are never emitted')
  for nm in ('onset_predictions', 'offset_predictions'):
    ok = nm in names
    ctx.ob('DEC/padded', fi, fn, ok, '%s is padded like the frames' % nm if ok else '%s is not padded with a silent frame: indexing the extra frame fails or misaligns' % nm, construct='%s padded' % nm)
  ok = norm_text(loop.iter) == 'enumerate(frames)'
  inner = next((n for n in loop.body if isinstance(n, ast.For)), None)
  okr = False
  if inner is not None and isinstance(inner.target, ast.Tuple):
    pv, av = [e.id for e in inner.target.elts]
    br = inner.body[0] if inner.body and isinstance(inner.body[0], ast.If) else None
    okr = br is not None and norm_text(br.test) == av and any('process_active_pitch(%s, %s)' % (pv, loop.target.elts[0].id) in norm_text(x) for x in br.body) and \
        br.orelse and isinstance(br.orelse[0], ast.If) and norm_text(br.orelse[0].test) == '%s in pitch_start_step' % pv and \
        any('end_pitch(%s, %s)' % (pv, loop.target.elts[0].id) in norm_text(x) for x in br.orelse[0].body)
  ctx.ob('DEC/run-end', fi, inner or loop, ok and okr, 'a run ends at the first inactive frame of an open pitch' if ok and okr else 'the decode loop does not end an open pitch at its first inactive frame')
  pa = roles.nested(fi, 'process_active_pitch')
  okp = False
  if pa is not None:
    t = norm_text(pa.node)
    okp = 'onset_predictions[i, pitch] and (not onset_predictions[i - 1, pitch])' in t.replace(pa.params()[1], 'i').replace(pa.params()[0], 'pitch') and 'end_pitch(' in t
  ctx.ob('DEC/onset-restart', pa or fi, (pa or fi).node, okp, 'a fresh onset (on now, off in the previous frame) inside a run ends the note and starts a new one' if okp else
         'a fresh onset inside a run does not end and restart the note')
  # ending a pitch always forgets its start, whether or not the note is long enough to be emitted
  dels = [s for s in ep.node.body if isinstance(s, ast.Delete) and len(s.targets) == 1 and isinstance(s.targets[0], ast.Subscript) and
          norm_text(s.targets[0].value) == 'pitch_start_step' and norm_text(s.targets[0].slice) == ep.params()[0]]
  alld = [s for s in U.walk_stmts(ep.node) if isinstance(s, ast.Delete)]
  okc = len(dels) == 1 and len(alld) == 1
  ctx.ob('DEC/end-clears-start', ep, alld[0] if alld else ep.node, okc, 'end_pitch removes the pitch from the open runs unconditionally' if okc else
         'end_pitch does not always remove the pitch from pitch_start_step: a run that is too short stays open and is ended again on every later frame',
         construct='del pitch_start_step[pitch] at the top level of end_pitch', definite=len(alld) == 1 and not dels)
  # preprocessing order: frames |= onsets, then frames &= ~offsets (a predicted offset ends the note even in an onset frame)
  ons = [s for s in U.walk_stmts(fn) if isinstance(s, ast.Assign) and norm_text(s.targets[0]) == 'frames' and isinstance(s.value, ast.Call) and
         dotted(s.value.func) in ('np.logical_or', 'numpy.logical_or') and 'onset_predictions' in norm_text(s.value)]
  offs = [s for s in U.walk_stmts(fn) if isinstance(s, ast.Assign) and isinstance(s.targets[0], ast.Subscript) and norm_text(s.targets[0].value) == 'frames' and
          'offset_predictions' in norm_text(s.targets[0].slice) and U.const_value(s.value) == 0]
  if not offs:
    # location-independent: without that clearing statement, a cell that is active AND has a predicted offset must at least never
    # be treated as active while no note is sounding - otherwise a note starts in a frame whose offset says "silent here"
    from rules import C10
    offset_fns = set(n for n, f in fi.nested.items() if any('offset_predictions' in norm_text(x) for x in ast.walk(f.node))) if hasattr(fi, 'nested') else set()
    for c in U.calls_in(loop):
      if not (isinstance(c.func, ast.Name) and c.func.id == 'process_active_pitch'):
        continue
      st = c
      pm = U.parents(fn)
      while st is not None and not isinstance(st, ast.stmt):
        st = pm.get(id(st))
      conds = U.path_conditions(fn, st, stop_at=loop)
      env = {}
      for t, _p in conds:
        for x in ast.walk(t):
          if isinstance(x, ast.Call) and isinstance(x.func, ast.Name) and x.func.id in offset_fns:
            env[norm_text(x)] = True
          if isinstance(x, ast.Compare) and 'offset_predictions[' in norm_text(x.left) and U.const_value(x.comparators[0]) == 0:
            env[norm_text(x)] = True
          if isinstance(x, ast.Compare) and len(x.ops) == 1 and isinstance(x.ops[0], (ast.In, ast.NotIn)) and norm_text(x.comparators[0]) == 'pitch_start_step':
            env[norm_text(x)] = isinstance(x.ops[0], ast.NotIn)
      inner = next((n for n in loop.body if isinstance(n, ast.For) and isinstance(n.target, ast.Tuple)), None)
      if inner is not None:
        env[inner.target.elts[1].id] = True
      r = C10.tv_all(conds, env)
      if r is True and any(v is True and ('offset' in k) for k, v in env.items()):
        ctx.ob('DEC/offset-silences', fi, c, False, 'the frames are no longer cleared where an offset is predicted, and %s is reached for a cell that is active, has a predicted offset and '
               'whose pitch is not sounding (%s): a note starts in a frame that the offset prediction marks as the end of sound, e.g. the second of two consecutive offset frames' % (
                   norm_text(c), ' and '.join(('' if p else 'not ') + '(' + norm_text(t) + ')' for t, p in conds)), construct='an offset cell is never treated as active', definite=True)
  oko = len(ons) == 1 and len(offs) == 1 and ons[0].lineno < offs[0].lineno and offs[0].lineno < loop.lineno
  ctx.ob('DEC/onset-then-offset', fi, offs[0] if offs else fn, oko, 'onset frames are made active first, then frames with a predicted offset are cleared' if oko else
         'the offsets are not applied after the onsets were merged into the frames: a cell with both stays active and the note runs through its predicted offset',
         construct='frames = frames | onsets; frames[frames & offsets] = 0',
         definite=len(ons) == 1 and len(offs) == 1 and offs[0].lineno < loop.lineno and ons[0].lineno > offs[0].lineno)    # both statements located, in the wrong order
  tt = [s for s in fn.body if isinstance(s, ast.Assign) and norm_text(s.targets[0]).endswith('.total_time')]
  ok = len(tt) == 1 and nf.equal(tt[0].value, E('len(frames) * %s' % flen))
  ctx.ob('DEC/total-time', fi, tt[0] if tt else fn, ok, 'total_time = number of frames * frame length' if ok else 'total_time is not len(frames) * frame_length')


MUTANTS = [
    Mutant('seed C18_d: a run that is too short is not forgotten', F, "      note.program = program\n\n    del pitch_start_step[pitch]\n", "      note.program = program\n      del pitch_start_step[pitch]\n", rule='DEC/end-clears-start'),
    Mutant('seed C18_e: offsets applied before the onsets are merged in', F, "    frames = np.logical_or(frames, onset_predictions)\n\n  if offset_predictions is not None:\n    offset_predictions = np.append(offset_predictions,\n                                   [np.zeros(offset_predictions[0].shape)], 0)\n    # If the frame and offset are both on, then turn it off\n    frames[np.where(np.logical_and(frames > 0, offset_predictions > 0))] = 0\n",
           "    onset_pending = True\n\n  if offset_predictions is not None:\n    offset_predictions = np.append(offset_predictions,\n                                   [np.zeros(offset_predictions[0].shape)], 0)\n    # If the frame and offset are both on, then turn it off\n    frames[np.where(np.logical_and(frames > 0, offset_predictions > 0))] = 0\n  if onset_predictions is not None:\n    frames = np.logical_or(frames, onset_predictions)\n", rule='DEC/onset-then-offset'),
    Mutant('end frame floors', F, "    end_frame = int(math.ceil(end_time * frames_per_second))", "    end_frame = int(math.floor(end_time * frames_per_second))", rule='FRAME/end-ceil'),
    Mutant('start frame rounds', F, "    start_frame = int(start_time * frames_per_second)\n", "    start_frame = int(round(start_time * frames_per_second))\n", rule='FRAME/start-floor'),
    Mutant('minimum length dropped', F, "    end_frame = max(start_frame + 1, end_frame)\n\n    return start_frame, end_frame", "    end_frame = max(start_frame, end_frame)\n\n    return start_frame, end_frame", rule='FRAME/at-least-one'),
    Mutant('roll one row short', F, "  roll = np.zeros((int(sequence.total_time * frames_per_second + 1),", "  roll = np.zeros((int(sequence.total_time * frames_per_second),", rule='ALLOC/rows'),
    Mutant('control roll sized differently', F, "      (int(sequence.total_time * frames_per_second + 1), 128), dtype=np.int32)", "      (int(sequence.total_time * frames_per_second + 2), 128), dtype=np.int32)", rule='ALLOC/rows'),
    Mutant('low pitches not skipped', F, "    if note.pitch < min_pitch or note.pitch > max_pitch:\n      logging.warn('Skipping out of range pitch: %d', note.pitch)\n      continue", "    if note.pitch > max_pitch:\n      logging.warn('Skipping out of range pitch: %d', note.pitch)\n      continue", rule='SKIP/'),
    Mutant('onset window not symmetric', F, "                            onset_start_frame_without_window + onset_window + 1)", "                            onset_start_frame_without_window + onset_window)", rule='WINDOW/onset'),
    Mutant('velocity scaled by 127', F, "                    min_pitch] = note.velocity / max_velocity", "                    min_pitch] = note.velocity / 127.0", rule='VELO/'),
    Mutant('decoder frame length is fps', F, "  frame_length_seconds = 1 / frames_per_second\n\n  sequence = music_pb2.NoteSequence()\n  sequence.tempos.add().qpm = qpm\n  sequence.ticks_per_quarter = constants.STANDARD_PPQ\n\n  pitch_start_step = {}", "  frame_length_seconds = frames_per_second\n\n  sequence = music_pb2.NoteSequence()\n  sequence.tempos.add().qpm = qpm\n  sequence.ticks_per_quarter = constants.STANDARD_PPQ\n\n  pitch_start_step = {}", rule='DEC/frame-length'),
    Mutant('silent frame appended after the loop', F, "  frames = np.append(frames, [np.zeros(frames[0].shape)], 0)\n\n  if onset_predictions is not None:", "  if onset_predictions is not None:", rule='DEC/silent-frame'),
    Mutant('min duration strict', F, "    if (end_time - start_time) * 1000 >= min_duration_ms:", "    if (end_time - start_time) * 1000 > min_duration_ms:", rule='DEC/min-duration'),
    Mutant('note end one frame late', F, "    end_time = end_frame * frame_length_seconds\n", "    end_time = (end_frame + 1) * frame_length_seconds\n", rule='DEC/times'),
    Mutant('run does not end on silence', F, "      elif pitch in pitch_start_step:\n        end_pitch(pitch, i)", "      elif pitch in pitch_start_step and False:\n        end_pitch(pitch, i)", rule='DEC/run-end'),
    Mutant('onset restart ignores the previous frame', F, "        if (onset_predictions[i, pitch] and\n            not onset_predictions[i - 1, pitch]):", "        if onset_predictions[i, pitch]:", rule='DEC/onset-restart'),
    # equivalent
    Mutant('math.floor on the start frame', F, "    start_frame = int(start_time * frames_per_second)\n", "    start_frame = int(math.floor(start_time * frames_per_second))\n", expect='silent'),
    Mutant('end product named in a local', F, "    end_frame = int(math.ceil(end_time * frames_per_second))", "    end_frames_float = end_time * frames_per_second\n    end_frame = int(math.ceil(end_frames_float))", expect='silent'),
    Mutant('minimum length operands swapped', F, "    end_frame = max(start_frame + 1, end_frame)\n\n    return start_frame, end_frame", "    end_frame = max(end_frame, 1 + start_frame)\n\n    return start_frame, end_frame", expect='silent'),
]

RENAME_FUNCS = [(F, 'sequence_to_pianoroll'), (F, 'pianoroll_to_note_sequence')]

EXPLANATION += (' Location-independent additions: DEC/silent-pitch-start, DEC/offset-silences, WINDOW/end-clamp, DEC/onset-then-offset definite when both statements are located in the wrong order.')
EXPLANATION += (' Round 6: ' + 'SKIP/ignored-notes-cannot-raise: a raise that depends on a note is unreachable for pitch = min_pitch - 1 / max_pitch + 1, and an aggregate over the notes that feeds a raise filters on the pitch range.')
EXPLANATION += (' Round 7: ' + "DEC/start-frame-zero-is-a-frame; WINDOW/onset-length-clamp; DEC/silent-pitch-start recognises a sentinel representation of 'not sounding'.")
EXPLANATION += (' Rounds 9-10: ' + 'SKIP/column-in-range (pitch 20 / 109 against the guards of every column store); FRAME/scenarios (frames_from_times evaluated on eight cases).')
EXPLANATION += (' Round 11: ' + 'DEC/one-column-index; VELO/rows-are-the-active-rows.')
EXPLANATION += (' Round 12: ' + 'two FRAME scenarios with a positive occupancy.')
EXPLANATION += (' Round 14: ' + 'WINDOW/delay-in-every-mode (per-arm def-use closure from the onset slice bounds to onset_delay_ms); DEC/position-in-selection-is-not-the-frame.')
