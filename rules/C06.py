"""C06 - rendering an event sequence to notes and extracting it again is the identity (DESIGN.md §4 C06)."""
import ast

from sa import nf, cov, roles, astutil as U
from sa.roles import Canon
from sa.loader import norm_text, dotted
from sa.selftest import Mutant

PROPERTY = 'C06'
LEVEL_TEXT = (
    'Structural necessary conditions of the render -> quantize -> extract identity, decided from the source for every tempo and '
    'resolution: each of the seven seconds_per_step definitions multiplied by the quantizer\'s steps_per_second for the same kind of '
    'resolution is identically 1 (rational normal form); every time a renderer writes is k * seconds_per_step + origin with k an '
    'integer-valued step expression and no other constant, and the origin is start_step * seconds_per_step (plus the caller\'s '
    'sequence_start_time) in all renderers alike (sibling agreement); tempo-relative renderers emit the tempo they used, and LeadSheet '
    'hands one qpm and one start time to both of its parts; extractors read the resolution from the quantization_info field the '
    'matching assert_is_*_quantized_sequence guards. The identity itself (floating-point grid, canonical forms) is not decided.')
LEVEL_NOTE = 'Trusted: the quantizer check C01 (steps_per_second = steps_per_quarter*qpm/60, nearest-step rounding); event values are integers.'
TECHNIQUE = 'static analysis: rational normal forms of time scales (reciprocity), affine grid-form check of every written time with straight-line substitution, sibling agreement of time origins, writer/reader agreement on the quantization oneof'
DESIGN_REF = 'DESIGN.md section 4 (C06)'
EXPLANATION = ('SCALE reciprocity of 7 seconds_per_step definitions; GRID form of every start/end/annotation time written by the renderers; ORIGIN '
               'sibling agreement; TEMPO emission by relative renderers and LeadSheet delegation; RES quantization_info field vs. assert in 7 extractors.')
TRUSTED = ['C01 for the quantizer side', 'event values are integers']
NOT_DECIDED = ['the identity itself over floating-point times and canonical forms']
ASSUMPTIONS = []
FLOORS = {'EXTRACT': 5, 'SCALE': 7, 'GRID': 12, 'ORIGIN': 6, 'TEMPO': 6, 'RES': 7}

RENDERERS = [
    # (function holding the seconds_per_step definition, kind, function that writes the times)
    ('melodies_lib:Melody.to_sequence', 'relative', 'melodies_lib:Melody.to_sequence'),
    ('drums_lib:DrumTrack.to_sequence', 'relative', 'drums_lib:DrumTrack.to_sequence'),
    ('chords_lib:ChordProgression.to_sequence', 'relative', 'chords_lib:ChordProgression.to_sequence'),
    ('pianoroll_lib:PianorollSequence.to_sequence', 'relative', 'pianoroll_lib:PianorollSequence.to_sequence'),
    ('performance_lib:Performance.to_sequence', 'absolute', 'performance_lib:BasePerformance._to_sequence'),
    ('performance_lib:MetricPerformance.to_sequence', 'relative', 'performance_lib:BasePerformance._to_sequence'),
    ('performance_lib:NotePerformance.to_sequence', 'absolute', 'performance_lib:NotePerformance.to_sequence'),
]
EXTRACTORS = [
    ('melodies_lib:Melody.from_quantized_sequence', 'relative'),
    ('drums_lib:DrumTrack.from_quantized_sequence', 'relative'),
    ('chords_lib:ChordProgression.from_quantized_sequence', 'relative'),
    ('pianoroll_lib:PianorollSequence.__init__', 'relative'),
    ('performance_lib:Performance.__init__', 'absolute'),
    ('performance_lib:MetricPerformance.__init__', 'relative'),
    ('performance_lib:NotePerformance.__init__', 'absolute'),
]


def E(t):
  return U.E(t)


ALIAS = {'self.steps_per_quarter': 'SPQ', 'self._steps_per_quarter': 'SPQ', 'self.steps_per_second': 'SPS', 'self._steps_per_second': 'SPS'}


def canon_renderer(fi):
  spec = {}
  if 'seconds_per_step' not in fi.params():
    spec['seconds_per_step'] = lambda fn: roles.assigned_where(fn, lambda v, st: isinstance(v, ast.BinOp) and isinstance(v.op, ast.Div) and
                                                               U.const_value(v.left if not isinstance(v.left, ast.BinOp) else v.left.left) in (60, 1))
  if 'sequence_start_time' not in fi.params():
    spec['sequence_start_time'] = lambda fn: roles.assigned_where(fn, lambda v, st: 'start_step' in norm_text(v) and isinstance(st.targets[0], ast.Name) and
                                                                  not norm_text(v).startswith('[') and isinstance(v, ast.BinOp))
  return Canon(fi, roles.discover(fi, spec, required=False)) if spec else fi


def sps_def(fi):
  d = [s for s in U.walk_stmts(fi.node) if isinstance(s, ast.Assign) and norm_text(s.targets[0]) == 'seconds_per_step']
  return d[0] if len(d) == 1 else None


def note_off_ends_one(ctx, rule):
  """Location-independent: the renderer keeps, per pitch, the list of onsets that are still open (one pitch may sound several
  times at once).  A NOTE_OFF closes the oldest one and must leave the others open: taking the pitch's whole list out of the
  map (pop / del / clear / re-binding to an empty list) without storing the remainder back drops every other open onset of
  that pitch, so overlapping unisons lose notes on the way back."""
  fi = ctx.func('performance_lib:BasePerformance._to_sequence')
  fn = fi.node
  maps = set()
  for c in ast.walk(fn):
    if isinstance(c, ast.Call) and isinstance(c.func, ast.Attribute) and c.func.attr == 'append':
      r = c.func.value
      if isinstance(r, ast.Subscript) and isinstance(r.value, ast.Name):
        maps.add(r.value.id)
      elif isinstance(r, ast.Call) and isinstance(r.func, ast.Attribute) and r.func.attr == 'setdefault' and isinstance(r.func.value, ast.Name):
        maps.add(r.func.value.id)
  cons = 'NOTE_OFF closes one open onset of its pitch and keeps the others'
  if not maps:
    why = 'cannot classify: no per-pitch map of open onsets found in _to_sequence'
    ctx.ob(rule, fi, fn, False, why, construct=cons, unknown=why)
    return
  branch = []
  for st in U.walk_stmts(fn):
    if any(p and isinstance(t, ast.Compare) and len(t.ops) == 1 and isinstance(t.ops[0], ast.Eq) and 'NOTE_OFF' in norm_text(t) for t, p in U.path_conditions(fn, st)):
      branch.append(st)
  whole, one, back = [], [], []
  for st in branch:
    for x in ast.walk(st):
      if isinstance(x, ast.Call) and isinstance(x.func, ast.Attribute) and isinstance(x.func.value, ast.Name) and x.func.value.id in maps and x.func.attr in ('pop', 'clear', 'popitem'):
        whole.append(x)
      if isinstance(x, ast.Call) and isinstance(x.func, ast.Attribute) and x.func.attr == 'pop' and x.args and U.const_value(x.args[0]) == 0:
        recv = U.expand_locals(fn, x.func.value, at=x)
        if isinstance(recv, ast.Subscript) and isinstance(recv.value, ast.Name) and recv.value.id in maps:
          one.append(x)
    if isinstance(st, ast.Delete):
      for t in st.targets:
        if isinstance(t, ast.Subscript) and isinstance(t.value, ast.Name) and t.value.id in maps:
          whole.append(st)
        if isinstance(t, ast.Subscript) and isinstance(t.value, ast.Subscript) and isinstance(t.value.value, ast.Name) and t.value.value.id in maps and U.const_value(t.slice) == 0:
          one.append(st)
    if isinstance(st, ast.Assign) and len(st.targets) == 1 and isinstance(st.targets[0], ast.Subscript) and isinstance(st.targets[0].value, ast.Name) and st.targets[0].value.id in maps:
      v = U.expand_locals(fn, st.value, at=st)
      if isinstance(v, (ast.List, ast.Tuple)) and not v.elts:
        whole.append(st)
      elif isinstance(v, ast.Subscript) and isinstance(v.slice, ast.Slice) and U.const_value(v.slice.lower) == 1 and v.slice.upper is None:
        one.append(st)
        back.append(st)
      else:
        back.append(st)
  if whole and not back:
    ctx.ob(rule, fi, whole[0], False, '%s takes the pitch\'s whole list of open onsets out of the map and nothing in the NOTE_OFF branch stores the remainder back: when a pitch has been '
           'started twice before its first NOTE_OFF, the second onset is discarded and its NOTE_OFF finds nothing - the note is lost' % norm_text(whole[0])[:80], construct=cons, definite=True)
  elif one:
    ctx.ob(rule, fi, one[0], True, 'the oldest open onset is removed (%s), the others stay in the map' % norm_text(one[0])[:60], construct=cons)
  else:
    why = 'cannot classify: how the NOTE_OFF branch removes an onset from %s is not recognised' % sorted(maps)
    ctx.ob(rule, fi, fn, False, why, construct=cons, unknown=why)


def chord_symbols_all_read(ctx, rule):
  """Location-independent: the chord extractor reads *every* chord-symbol annotation, "N.C." included - a no-chord symbol after a
  chord is what ends that chord.  The selection of the annotations may test their type (and position), never their text."""
  fi = ctx.func('chords_lib:ChordProgression.from_quantized_sequence')
  fn = fi.node
  cons = 'every chord-symbol annotation takes part in the extraction, whatever its text'
  n = 0
  for c in ast.walk(fn):
    if isinstance(c, (ast.ListComp, ast.GeneratorExp)) and norm_text(c.generators[0].iter).endswith('.text_annotations') and isinstance(c.generators[0].target, ast.Name):
      v = c.generators[0].target.id
      n += 1
      on_text = [f for f in c.generators[0].ifs if any(isinstance(x, ast.Attribute) and x.attr == 'text' and norm_text(x.value) == v for x in ast.walk(f))]
      ctx.ob(rule, fi, c, not on_text, 'the annotations are selected by type only' if not on_text else
             'the chord annotations are selected with %s: an annotation left out by its text (N.C.) no longer ends the chord before it, which is then carried through the no-chord steps' %
             norm_text(on_text[0]), construct=cons, definite=True)
  for lp in ast.walk(fn):
    if isinstance(lp, ast.For) and norm_text(lp.iter).endswith('.text_annotations') and isinstance(lp.target, ast.Name):
      n += 1
      v = lp.target.id
      skips = [st for st in U.walk_stmts(lp) if isinstance(st, ast.Continue) and
               any(isinstance(x, ast.Attribute) and x.attr == 'text' and norm_text(x.value) == v for t, _p in U.path_conditions(fn, st, stop_at=lp) for x in ast.walk(t))]
      ctx.ob(rule, fi, skips[0] if skips else lp, not skips, 'no annotation is skipped because of its text' if not skips else
             'an annotation is skipped depending on its text: a N.C. symbol no longer ends the chord before it', construct=cons, definite=True)
  if n == 0:
    why = 'cannot classify: how ChordProgression.from_quantized_sequence selects the chord annotations is not recognised'
    ctx.ob(rule, fi, fn, False, why, construct=cons, unknown=why)


def melody_note_per_onset(ctx, rule):
  """Location-independent: Melody.to_sequence writes one note per pitch event.  The notes must be created while walking the events
  themselves; creating them from runs of a derived per-step sequence (itertools.groupby over "the pitch sounding on each step")
  merges a pitch that is struck twice in a row into one note, and the second onset is lost on the way back."""
  fi = ctx.func('melodies_lib:Melody.to_sequence')
  fn = fi.node
  cons = 'one rendered note per pitch event of the melody'
  adds = [c for c in U.calls_in(fn) if isinstance(c.func, ast.Attribute) and c.func.attr == 'add' and norm_text(c.func.value).endswith('.notes')]
  if not adds:
    why = 'cannot classify: Melody.to_sequence adds no note'
    ctx.ob(rule, fi, fn, False, why, construct=cons, unknown=why)
    return
  for c in adds:
    loops = [lp for lp in U.enclosing_loops(fn, c) if isinstance(lp, ast.For)]
    if not loops:
      why = 'cannot classify: a note is added outside any loop'
      ctx.ob(rule, fi, c, False, why, construct=cons, unknown=why)
      continue
    it = U.expand_locals(fn, loops[-1].iter, at=loops[-1])
    src = it
    while isinstance(src, ast.Call) and dotted(src.func) in ('enumerate', 'list', 'iter', 'zip') and src.args:
      src = src.args[0] if dotted(src.func) != 'zip' else next((a for a in src.args if norm_text(a) in ('self', 'self._events')), src.args[0])
    if norm_text(src) in ('self', 'self._events'):
      ctx.ob(rule, fi, c, True, 'notes are created while walking the events', construct=cons)
    elif any(isinstance(x, ast.Call) and (dotted(x.func) or '').endswith('groupby') for x in ast.walk(it)):
      ctx.ob(rule, fi, c, False, 'notes are created per run of %s: two consecutive events of the same pitch (a note struck again without a NOTE_OFF in between) fall into one run and are '
             'rendered as one long note' % norm_text(loops[-1].iter)[:70], construct=cons, definite=True)
    else:
      why = 'cannot classify: notes are created while walking %s, not the events themselves' % norm_text(loops[-1].iter)[:70]
      ctx.ob(rule, fi, c, False, why, construct=cons, unknown=why)


def run(ctx):
  from rules import C07, C09
  chord_symbols_all_read(ctx, 'EXTRACT/chord-symbols-all-read')
  melody_note_per_onset(ctx, 'RENDER/melody-note-per-onset')
  note_off_ends_one(ctx, 'RENDER/note-off-ends-one')
  from sa import pitfalls
  scope = []
  for fq in sorted(set([w for _f, _k, w in RENDERERS] + [f for f, _k in EXTRACTORS] + ['performance_lib:BasePerformance._from_quantized_sequence',
                                                                                     'performance_lib:NotePerformance._from_quantized_sequence'])):
    try:
      scope.append(ctx.func(fq))
    except Exception:      # pylint: disable=broad-except
      ctx.note('pitfall scope: %s not found' % fq)
  pitfalls.apply(ctx, 'PITFALL', scope, ['previous-wraps', 'neg-zero-slice'], {
      'previous-wraps': 'the first event is compared with the last one, so what is written for step 0 depends on how the sequence ends: rendering then extracting no longer returns the events',
      'neg-zero-slice': 'an empty remainder becomes the whole list'})
  C09.velocity(ctx)     # extraction re-bins the velocity the renderer wrote: the two maps must be inverse on bin representatives
  sustained_is_about_the_last_event(ctx)
  C07.parameters_reach(ctx)      # the limits and the instrument given to a constructor are the ones extraction works with
  C07.pad_to_bar(ctx, 'EXTRACT/pad-next-bar-line')      # a padded extraction of rendered events gives the events back, not an extra bar
  C07.roll_pitch_range(ctx, 'EXTRACT/roll-pitch-range')
  C07.roll_gap_index(ctx, 'EXTRACT/roll-gap-index')
  C07.velocity_onsets(ctx, 'EXTRACT/velocity-onsets-only')
  step_order(ctx)
  order_key_on_the_grid(ctx, 'EXTRACT/order-key-on-the-grid')
  C07.drum_gap(ctx, 'EXTRACT/drum-gap')
  C07.note_perf_limit(ctx, 'EXTRACT/note-limit')
  C07.metric_limit(ctx, 'EXTRACT/metric-limit')
  origins = {}
  for fq, kind, writer in RENDERERS:
    fi = canon_renderer(ctx.func(fq))
    d = sps_def(fi)
    ctx.require(d is not None, '%s: seconds_per_step definition not found' % fq)
    ok = False
    got = None
    try:
      got = nf.Builder({}, attr_alias=ALIAS).rat(d.value)
      other = nf.rat(E('SPQ * qpm / 60')) if kind == 'relative' else nf.rat(E('SPS'))
      ok = (got * other).is_one()
    except nf.NFError:
      ok = False
    ctx.ob('SCALE/reciprocal', fi, d, ok, 'seconds_per_step x steps_per_second = 1 (%s)' % kind if ok else
           '%s renders with seconds_per_step = %r, which is not the reciprocal of the quantizer\'s steps_per_second (%s): rendered steps do not re-quantize to themselves' % (
               fi.qualname, got, 'steps_per_quarter*qpm/60' if kind == 'relative' else 'steps_per_second'), construct='%s seconds_per_step' % fi.qualname)
    if writer != fq:
      calls = [c for c in U.calls_in(fi.node) if norm_text(c.func) == 'self._to_sequence']
      ok = len(calls) == 1 and any(k.arg == 'seconds_per_step' and norm_text(k.value) == 'seconds_per_step' for k in calls[0].keywords) or \
          (len(calls) == 1 and calls[0].args and norm_text(calls[0].args[0]) == 'seconds_per_step')
      ctx.ob('SCALE/passed', fi, calls[0] if calls else fi.node, ok, 'the scale is handed to the shared renderer' if ok else 'the computed seconds_per_step is not passed to _to_sequence')
  for writer in sorted(set(w for _f, _k, w in RENDERERS)):
    grid(ctx, canon_renderer(ctx.func(writer)), origins)
  # sibling agreement of origins
  for w, (org, has_param, node, fi) in sorted(origins.items()):
    want = nf.rat(E('self.start_step * seconds_per_step')) + (nf.rat(E('SST0')) if has_param else nf.rat(E('0')))
    ok = org is not None and org.equals(want)
    ctx.ob('ORIGIN/start-step', fi, node, ok, 'times are placed at start_step * seconds_per_step%s' % (' + sequence_start_time' if has_param else '') if ok else
           '%s places its events at origin %r; its sibling renderers use start_step * seconds_per_step%s (an event sequence that does not start at step 0 is rendered at the wrong time)' % (
               fi.qualname, org, ' + sequence_start_time' if has_param else ''), construct='%s time origin' % fi.qualname)
  tempos(ctx)
  resolution(ctx)


def sustained_is_about_the_last_event(ctx, rule='EXTRACT/sustained-is-about-the-last-event'):
  """Melody.set_length ends a note that is still sounding when it pads on the right.  "Still sounding" is a fact about the *last* event
  that is not NO_EVENT (a pitch: sounding; NOTE_OFF: not).  A test on the *set* of events has lost the order: an earlier NOTE_OFF
  anywhere in the melody makes the last note look ended, and the padded melody is not what extraction of the rendered notes gives."""
  fi = ctx.func('melodies_lib:Melody.set_length')
  fn = fi.node
  stores = [st for st in U.walk_stmts(fn) if isinstance(st, ast.Assign) and len(st.targets) == 1 and isinstance(st.targets[0], ast.Subscript) and
            norm_text(st.targets[0].value) == 'self._events' and (dotted(st.value) or '').split('.')[-1] in ('MELODY_NOTE_OFF', 'NOTE_OFF')]
  cons = 'Melody.set_length decides "still sounding" from the last event'
  if not stores:
    why = 'cannot classify: Melody.set_length does not store a NOTE_OFF into self._events'
    ctx.ob(rule, fi, fn, False, why, construct=cons, unknown=why)
    return
  for st in stores:
    conds = [U.expand_locals(fn, t, at=st) for t, _p in U.path_conditions(fn, st)]
    unordered = [c for t in conds for c in ast.walk(t) if isinstance(c, ast.Call) and dotted(c.func) in ('set', 'frozenset', 'collections.Counter', 'Counter') and
                 any(isinstance(a, ast.Attribute) and a.attr == '_events' for x in c.args for a in ast.walk(x))]
    ctx.ob(rule, fi, st, not unordered, 'the NOTE_OFF is stored under conditions that read the events in order' if not unordered else
           'whether the note at the end is still sounding is decided from %s, the set of all events: a NOTE_OFF anywhere earlier in the melody (a rest before the last note) makes the last '
           'note look ended, so padding does not end it' % norm_text(unordered[0])[:50], construct=cons, definite=True)


def step_order(ctx):
  """Location-independent: the event sequence is a fixed point of render -> quantize -> extract only if the order in which the
  events of ONE step are written is a function of what the rendered notes preserve: the step, note-on / note-off, the pitch, the
  velocity bin.  to_sequence closes the *oldest* open note of a pitch at a NOTE_OFF, so when two notes of one pitch overlap it
  does not preserve which onset belongs to which offset.  If the per-step order of the extractor uses the identity of the note an
  event belongs to - its index in the list sorted by (start_time, ...) - a NOTE_OFF is placed according to the start of "its"
  note, and after the round trip that is another note: NOTE_OFF events of different pitches at one step swap places
  (witness: findings/F27_performance_step_order_demo.py)."""
  fi = ctx.func('performance_lib:BasePerformance._from_quantized_sequence')
  fn = fi.node
  srt = [c for c in U.calls_in(fn) if dotted(c.func) == 'sorted' and c.args and not c.keywords and isinstance(c.args[0], ast.BinOp)]
  for c in srt:
    # sorted(onsets + offsets): whole-tuple comparison of the event tuples
    parts = []
    def leaves(n):
      if isinstance(n, ast.BinOp) and isinstance(n.op, ast.Add):
        leaves(n.left); leaves(n.right)
      else:
        parts.append(n)
    leaves(c.args[0])
    tuples = []
    for p in parts:
      x = U.expand_locals(fn, p, at=c)
      if isinstance(x, (ast.ListComp, ast.GeneratorExp)) and isinstance(x.elt, ast.Tuple):
        tuples.append((x.elt, x.generators[0]))
    if len(tuples) < 2:
      continue
    for tup, gen in tuples:
      # the enumerate index of the notes sorted by start time, used as the second sort component
      idx = gen.target.elts[0].id if isinstance(gen.target, ast.Tuple) and isinstance(gen.iter, ast.Call) and dotted(gen.iter.func) == 'enumerate' and \
          isinstance(gen.target.elts[0], ast.Name) else None
      uses_identity = idx is not None and len(tup.elts) >= 2 and isinstance(tup.elts[1], ast.Name) and tup.elts[1].id == idx
      is_off = any(isinstance(e, ast.Constant) and e.value is True for e in tup.elts)
      if not is_off:
        continue
      ctx.ob('EXTRACT/step-order-invariant', fi, tup, not uses_identity, 'note-offs of one step are ordered by properties the rendered notes preserve' if not uses_identity else
             'the note-off events of one step are ordered by %s, the rank of the note they belong to in the list sorted by start time: to_sequence pairs a NOTE_OFF with the oldest open '
             'note of that pitch, so with two overlapping notes of one pitch the offsets change owner in the round trip and NOTE_OFF events of different pitches at that step come '
             'back in another order' % idx, construct='per-step order of NOTE_OFF events is independent of which note they close', definite=True)


def order_key_on_the_grid(ctx, rule):
  """Location-independent: the performance extractors emit the events of one step in the order of a sort over the notes.  The
  round trip render -> quantize -> extract returns the same events only if that order is a function of what a rendered note
  keeps: its quantized start / end step, its pitch, its velocity *bin*.  A key component that reads the raw start_time,
  end_time or velocity orders two notes of one step (or of one bin) by information the rendered notes no longer carry; after
  the round trip the later components decide instead and the events of that step come back in another order
  (witness: findings/F29_performance_substep_order_demo.py)."""
  GRID = ('quantized_start_step', 'quantized_end_step', 'pitch', 'instrument', 'program', 'is_drum')
  RAW = ('start_time', 'end_time', 'velocity')
  for fq in ('performance_lib:BasePerformance._from_quantized_sequence', 'performance_lib:NotePerformance._from_quantized_sequence'):
    fi = ctx.func(fq)
    fn = fi.node
    keys = []
    for c in U.calls_in(fn):
      k = next((kw.value for kw in c.keywords if kw.arg == 'key'), None)
      if k is not None and (dotted(c.func) == 'sorted' or (isinstance(c.func, ast.Attribute) and c.func.attr == 'sort')):
        keys.append((c, U.expand_locals(fn, k, at=c)))
    cons_base = 'the order of the events of one step is decided by quantities a rendered note keeps'
    if not keys:
      why = 'cannot classify: %s sorts nothing with a key function' % fi.qualname
      ctx.ob(rule, fi, fn, False, why, construct=cons_base, unknown=why)
      continue
    for c, k in keys:
      if isinstance(k, ast.Call) and (dotted(k.func) or '').endswith('attrgetter') and k.args and all(isinstance(a, ast.Constant) and isinstance(a.value, str) for a in k.args):
        # operator.attrgetter('a', 'b') is lambda x: (x.a, x.b)
        k = ast.Lambda(args=ast.arguments(posonlyargs=[], args=[ast.arg(arg='x_')], kwonlyargs=[], kw_defaults=[], defaults=[]),
                       body=ast.Tuple(elts=[ast.Attribute(value=ast.Name(id='x_', ctx=ast.Load()), attr=a.value, ctx=ast.Load()) for a in k.args], ctx=ast.Load()))
      if not isinstance(k, ast.Lambda):
        why = 'cannot classify: the sort key %s is not a lambda' % norm_text(k)[:60]
        ctx.ob(rule, fi, c, False, why, construct=cons_base, unknown=why)
        continue
      v = k.args.args[0].arg
      comps = k.body.elts if isinstance(k.body, ast.Tuple) else [k.body]
      raw, unknown = [], []
      for e in comps:
        attrs = [x.attr for x in ast.walk(e) if isinstance(x, ast.Attribute) and isinstance(x.value, ast.Name) and x.value.id == v]
        binned = isinstance(e, ast.Call) and (dotted(e.func) or '').endswith('velocity_to_bin')
        if binned or (attrs and all(a in GRID for a in attrs)):
          continue
        if attrs and all(a in RAW + GRID for a in attrs):
          raw.extend(a for a in attrs if a in RAW)
        else:
          unknown.append(norm_text(e))
      if unknown:
        why = 'cannot classify: sort key component %s' % ', '.join(unknown)
        ctx.ob(rule, fi, c, False, why, construct=cons_base, unknown=why)
      elif raw:
        ctx.ob(rule, fi, c, False, 'the notes are sorted by %s: %s %s finer than what the events store (the step, the velocity bin), so two notes that fall into one step (or one bin) are '
               'emitted in an order that rendering does not preserve - after render -> quantize -> extract the remaining key components decide and the events of that step are '
               'permuted' % (norm_text(k.body), ', '.join(raw), 'is' if len(raw) == 1 else 'are'),
               construct='%s; raw key components: %s' % (cons_base, ', '.join(raw)), definite=True)
      else:
        ctx.ob(rule, fi, c, True, 'every key component is a quantized step, the pitch or the velocity bin', construct=cons_base)


def grid(ctx, fi, origins):
  fn = fi.node
  has_param = 'sequence_start_time' in fi.params()
  # straight-line environment of the statements before the first loop
  env = {}
  if has_param:
    env['sequence_start_time'] = nf.rat(E('SST0'))
  origin_node = fn
  for st in fn.body:
    if isinstance(st, (ast.For, ast.While)):
      break
    if isinstance(st, ast.Assign) and isinstance(st.targets[0], ast.Name) and st.targets[0].id == 'sequence_start_time':
      try:
        env['sequence_start_time'] = nf.Builder(dict(env)).rat(st.value)
        origin_node = st
      except nf.NFError:
        pass
    elif isinstance(st, ast.AugAssign) and isinstance(st.target, ast.Name) and st.target.id == 'sequence_start_time' and isinstance(st.op, ast.Add):
      try:
        env['sequence_start_time'] = env.get('sequence_start_time', nf.rat(E('sequence_start_time'))) + nf.Builder(dict(env)).rat(st.value)
        origin_node = st
      except nf.NFError:
        pass
  org = env.get('sequence_start_time')
  origins[fi.fq] = (org, has_param, origin_node, fi)
  SPS = nf.rat(E('seconds_per_step'))
  SST = nf.rat(E('sequence_start_time'))
  n = 0
  # names that hold an *absolute* step: elements of self.steps (BasePerformance.steps starts counting at self.start_step)
  abs_names = set()
  for lp in ast.walk(fn):
    if isinstance(lp, (ast.For, ast.comprehension)):
      it, tg = lp.iter, lp.target
      if isinstance(it, ast.Call) and dotted(it.func) == 'enumerate' and it.args and isinstance(tg, ast.Tuple) and len(tg.elts) == 2:
        it, tg = it.args[0], tg.elts[1]
      if norm_text(it) == 'self.steps' and isinstance(tg, ast.Name):
        abs_names.add(tg.id)
      if isinstance(it, ast.Call) and dotted(it.func) == 'zip' and isinstance(tg, ast.Tuple) and len(tg.elts) == len(it.args):
        abs_names.update(t.id for a, t in zip(it.args, tg.elts) if norm_text(a) == 'self.steps' and isinstance(t, ast.Name))
  stp = ctx.P.module('performance_lib').all_functions.get('BasePerformance.steps')
  if stp is None or not any(isinstance(x, ast.Attribute) and x.attr in ('start_step', '_start_step') for x in ast.walk(stp.node)):
    abs_names = set()      # self.steps is not (any more) counted from start_step
  org_has_start = org is not None and any('start_step' in a for a in org.atoms()) if hasattr(org, 'atoms') else ('start_step' in repr(org))
  for st in U.walk_stmts(fn):
    for tgt, val, op in U.store_targets(st):
      if not (isinstance(tgt, ast.Attribute) and tgt.attr in ('start_time', 'end_time', 'time') and op == 'store' and val is not None):
        continue
      # location-independent: the start step enters a rendered time exactly once
      ex = U.expand_locals(fn, val, at=st)
      refs = [x for x in ast.walk(ex) if (isinstance(x, ast.Name) and x.id in abs_names) or
              (isinstance(x, ast.Attribute) and norm_text(x) in ('self.start_step', 'self._start_step'))]
      # coefficient of start_step in the rendered time, in steps: an element of self.steps is (relative step + start_step)
      total = None
      try:
        envs = dict((a, E('REL_%s + self.start_step' % a)) for a in abs_names)
        b_ = nf.Builder(envs, attr_alias={'self._start_step': 'self.start_step'})
        r = b_.rat(ex)
        sps = b_.rat(U.expand_locals(fn, E('seconds_per_step'), at=st))
        def coefficient(unit, atom):
          """c such that r - c*unit no longer mentions atom (0 if r does not mention it; None if no small c works)"""
          if atom not in r.atoms():
            return 0
          for c in (1, 2, 3):
            if atom not in (r - nf.Rat(nf.Poly.const(c)) * unit).n.atoms():
              return c
          return None
        c1 = coefficient(nf.rat(E('self.start_step')) * sps, 'self.start_step')
        c2 = coefficient(nf.rat(E('sequence_start_time')), 'sequence_start_time') if org_has_start else 0
        total = c1 + c2 if c1 is not None and c2 is not None else None
      except (nf.NFError, ZeroDivisionError):
        total = None
      if total is not None and total >= 2:
        ctx.ob('ORIGIN/start-step-once', fi, st, False, '%s = %s adds the start step %s times (%s%s): a sequence that does not start at step 0 is rendered late by start_step steps' % (
            norm_text(tgt), norm_text(val), total, ', '.join(sorted(set(norm_text(x) + (' (an element of self.steps, counted from start_step)' if isinstance(x, ast.Name) else '') for x in refs))),
            ' and sequence_start_time' if org_has_start and any(isinstance(x, ast.Name) and x.id == 'sequence_start_time' for x in ast.walk(ex)) else ''), construct='start_step enters a rendered time once', definite=True)
      txt = norm_text(val)
      if 'max_note_duration' in txt:
        continue       # documented optional truncation (default None), not on the identity path
      if isinstance(val, ast.Attribute) and val.attr in ('start_time', 'end_time'):
        continue
      n += 1
      ok = False
      why = ''
      try:
        r = nf.rat(val)
        diff = (r - SST).poly()
        p = diff.divide_by_atom('seconds_per_step') if diff is not None else None
        if p is None:
          why = 'it is not of the form k * seconds_per_step + sequence_start_time'
        else:
          atoms = p.atoms()
          c = p.t.get((), 0)
          if 'seconds_per_step' in atoms or 'sequence_start_time' in atoms:
            why = 'it is not linear in seconds_per_step with origin sequence_start_time'
          elif getattr(c, 'denominator', 1) != 1:
            why = 'it adds the fractional step offset %s' % c
          else:
            ok = True
      except nf.NFError as e:
        why = str(e)
      ctx.ob('GRID/time', fi, st, ok, '%s = (%s) * seconds_per_step + sequence_start_time' % (norm_text(tgt), 'integer step expression') if ok else
             '%s writes %s = %s: %s, so the time does not lie on the quantization grid' % (fi.qualname, norm_text(tgt), txt, why))
  ctx.require(n >= 1, '%s: no rendered times found' % fi.fq)


def tempos(ctx):
  for fq in ('melodies_lib:Melody.to_sequence', 'drums_lib:DrumTrack.to_sequence', 'chords_lib:ChordProgression.to_sequence',
             'pianoroll_lib:PianorollSequence.to_sequence', 'performance_lib:MetricPerformance.to_sequence'):
    fi = ctx.func(fq)
    ok = False
    for st in U.walk_stmts(fi.node):
      t = norm_text(st)
      if t.endswith('.tempos.add().qpm = qpm') or t.endswith('.tempos.add(qpm=qpm)'):
        ok = True
    ctx.ob('TEMPO/emitted', fi, fi.node, ok, 'the tempo used for rendering is written into the sequence' if ok else
           '%s does not record the qpm it rendered with: re-quantization would assume 120 qpm' % fi.qualname, construct='%s emits tempos.add(qpm)' % fi.qualname)
  ls = ctx.func('lead_sheets_lib:LeadSheet.to_sequence')
  calls = {norm_text(c.func): c for c in U.calls_in(ls.node) if norm_text(c.func) in ('self._melody.to_sequence', 'self._chords.to_sequence')}
  ok = len(calls) == 2
  if ok:
    for c in calls.values():
      kw = {k.arg: norm_text(k.value) for k in c.keywords}
      ok = ok and kw.get('qpm') == 'qpm' and kw.get('sequence_start_time') == 'sequence_start_time'
  ctx.ob('TEMPO/lead-sheet', ls, ls.node, ok, 'melody and chords are rendered with one qpm and one start time' if ok else
         'LeadSheet.to_sequence does not pass the same qpm and sequence_start_time to both of its parts', construct='LeadSheet renders both parts alike')


def resolution(ctx):
  for fq, kind in EXTRACTORS:
    fi = ctx.func(fq)
    fieldname = 'steps_per_quarter' if kind == 'relative' else 'steps_per_second'
    guard = 'assert_is_relative_quantized_sequence' if kind == 'relative' else 'assert_is_absolute_quantized_sequence'
    reads = [n for n in ast.walk(fi.node) if isinstance(n, ast.Attribute) and n.attr in ('steps_per_quarter', 'steps_per_second') and
             isinstance(n.value, ast.Attribute) and n.value.attr == 'quantization_info']
    guards = [c for c in U.calls_in(fi.node) if (dotted(c.func) or '').split('.')[-1].startswith('assert_is_')]
    ok = len(reads) >= 1 and all(r.attr == fieldname for r in reads) and any((dotted(g.func) or '').split('.')[-1] == guard for g in guards) and \
        all((dotted(g.func) or '').split('.')[-1] == guard for g in guards)
    ctx.ob('RES/field-and-guard', fi, reads[0] if reads else fi.node, ok, '%s reads quantization_info.%s under %s' % (fi.qualname, fieldname, guard) if ok else
           '%s reads %s guarded by %s; a %s-quantized extractor must read quantization_info.%s under %s' % (
               fi.qualname, sorted(set(r.attr for r in reads)), sorted(set((dotted(g.func) or '').split('.')[-1] for g in guards)), kind, fieldname, guard),
           construct='%s resolution field' % fi.qualname)


ML = 'note_seq/melodies_lib.py'
DL = 'note_seq/drums_lib.py'
CL = 'note_seq/chords_lib.py'
PR = 'note_seq/pianoroll_lib.py'
PL = 'note_seq/performance_lib.py'
LS = 'note_seq/lead_sheets_lib.py'
MUTANTS = [
    Mutant('melody scale off by one step per quarter', ML, "    seconds_per_step = 60.0 / qpm / self.steps_per_quarter\n\n    sequence = music_pb2.NoteSequence()\n    sequence.tempos.add().qpm = qpm\n    sequence.ticks_per_quarter = STANDARD_PPQ\n\n    sequence_start_time += self.start_step * seconds_per_step\n    current_sequence_note",
           "    seconds_per_step = 60.0 / qpm / (self.steps_per_quarter + 1)\n\n    sequence = music_pb2.NoteSequence()\n    sequence.tempos.add().qpm = qpm\n    sequence.ticks_per_quarter = STANDARD_PPQ\n\n    sequence_start_time += self.start_step * seconds_per_step\n    current_sequence_note", rule='SCALE/'),
    Mutant('metric performance forgets the tempo in the scale', PL, "    seconds_per_step = 60.0 / (self.steps_per_quarter * qpm)", "    seconds_per_step = 60.0 / (self.steps_per_quarter * 120.0)", rule='SCALE/'),
    Mutant('absolute performance uses steps as seconds', PL, "    seconds_per_step = 1.0 / self.steps_per_second\n    return self._to_sequence(", "    seconds_per_step = self.steps_per_second\n    return self._to_sequence(", rule='SCALE/'),
    Mutant('drum tempo not emitted', DL, "    sequence.tempos.add().qpm = qpm\n", "", rule='TEMPO/emitted'),
    Mutant('metric performance tempo not emitted', PL, "    sequence.tempos.add(qpm=qpm)\n    return sequence", "    return sequence", rule='TEMPO/emitted'),
    Mutant('melody note starts one step late', ML, "        current_sequence_note.start_time = (\n            step * seconds_per_step + sequence_start_time)", "        current_sequence_note.start_time = (\n            step * seconds_per_step + sequence_start_time + 0.5 * seconds_per_step)", rule='GRID/'),
    Mutant('drum ends in seconds not steps', DL, "        note.end_time = (step + 1) * seconds_per_step + sequence_start_time", "        note.end_time = step * seconds_per_step + 1 + sequence_start_time", rule='GRID/'),
    Mutant('chords ignore start_step again', CL, "    sequence_start_time += self.start_step * seconds_per_step\n    current_figure = NO_CHORD", "    current_figure = NO_CHORD", rule='ORIGIN/'),
    Mutant('pianoroll origin in steps', PR, "    sequence_start_time = self.start_step * seconds_per_step\n", "    sequence_start_time = self.start_step\n", rule='ORIGIN/'),
    Mutant('performance origin twice', PL, "    sequence_start_time = self.start_step * seconds_per_step\n\n    sequence = music_pb2.NoteSequence()\n    sequence.ticks_per_quarter = STANDARD_PPQ\n\n    step = 0\n\n    if program is None:\n      # Use program associated with the performance (or default program).\n      program = self.program if self.program is not None else DEFAULT_PROGRAM\n    is_drum = self.is_drum if self.is_drum is not None else False\n\n    # Map pitch",
           "    sequence_start_time = 2 * self.start_step * seconds_per_step\n\n    sequence = music_pb2.NoteSequence()\n    sequence.ticks_per_quarter = STANDARD_PPQ\n\n    step = 0\n\n    if program is None:\n      # Use program associated with the performance (or default program).\n      program = self.program if self.program is not None else DEFAULT_PROGRAM\n    is_drum = self.is_drum if self.is_drum is not None else False\n\n    # Map pitch", rule='ORIGIN/'),
    Mutant('lead sheet chords rendered at the default tempo', LS, "    chord_sequence = self._chords.to_sequence(\n        sequence_start_time=sequence_start_time, qpm=qpm)", "    chord_sequence = self._chords.to_sequence(\n        sequence_start_time=sequence_start_time)", rule='TEMPO/lead-sheet'),
    Mutant('metric performance reads steps_per_second', PL, "      self._steps_per_quarter = (\n          quantized_sequence.quantization_info.steps_per_quarter)", "      self._steps_per_quarter = (\n          quantized_sequence.quantization_info.steps_per_second)", rule='RES/'),
    Mutant('performance accepts relative quantization', PL, "      sequences_lib.assert_is_absolute_quantized_sequence(quantized_sequence)\n      self._steps_per_second = (", "      sequences_lib.assert_is_relative_quantized_sequence(quantized_sequence)\n      self._steps_per_second = (", rule='RES/'),
    # equivalent
    Mutant('scale written as one quotient', ML, "    seconds_per_step = 60.0 / qpm / self.steps_per_quarter\n\n    sequence = music_pb2.NoteSequence()\n    sequence.tempos.add().qpm = qpm\n    sequence.ticks_per_quarter = STANDARD_PPQ\n\n    sequence_start_time += self.start_step * seconds_per_step\n    current_sequence_note",
           "    seconds_per_step = 60.0 / (qpm * self.steps_per_quarter)\n\n    sequence = music_pb2.NoteSequence()\n    sequence.tempos.add().qpm = qpm\n    sequence.ticks_per_quarter = STANDARD_PPQ\n\n    sequence_start_time += self.start_step * seconds_per_step\n    current_sequence_note", expect='silent'),
    Mutant('drum end written as start plus one step', DL, "        note.end_time = (step + 1) * seconds_per_step + sequence_start_time", "        note.end_time = step * seconds_per_step + seconds_per_step + sequence_start_time", expect='silent'),
    Mutant('tempo emitted with a keyword', DL, "    sequence.tempos.add().qpm = qpm\n", "    sequence.tempos.add(qpm=qpm)\n", expect='silent'),
]

RENAME_FUNCS = [(ML, 'Melody.to_sequence'), (DL, 'DrumTrack.to_sequence'), (CL, 'ChordProgression.to_sequence'), (PR, 'PianorollSequence.to_sequence'),
                (PL, 'BasePerformance._to_sequence'), (PL, 'Performance.to_sequence'), (PL, 'MetricPerformance.to_sequence'), (PL, 'NotePerformance.to_sequence')]

EXPLANATION += (' Shared with C07: EXTRACT/roll-pitch-range, EXTRACT/roll-gap-index, EXTRACT/velocity-onsets-only. ORIGIN/start-step-once (normal-form coefficient of start_step in a rendered time). EXTRACT/step-order-invariant locates known finding F27.')
EXPLANATION += (' Round 6: ' + 'PITFALL/previous-wraps and PITFALL/neg-zero-slice over all renderers and extractors; RENDER/note-off-ends-one (the per-pitch list of open onsets is never taken out of the map without storing the remainder back).')
EXPLANATION += (' Round 7: ' + 'EXTRACT/chord-symbols-all-read; RENDER/melody-note-per-onset; EXTRACT/order-key-on-the-grid (known finding F29).')
EXPLANATION += (' Rounds 9-10: ' + 'PITFALL/unforwarded-parameter and dead-parameter over the event-sequence classes (shared with C07); EXTRACT/metric-limit reads through nested one-return helpers and is located when the limit does not mention max_shift_quarters.')
EXPLANATION += (' Round 11: ' + 'EXTRACT/pad-next-bar-line shared from C07; EXTRACT/sustained-is-about-the-last-event.')
