"""Facts about the *installed* pretty_midi package, read from its source with
`ast` (never imported): constructor parameter names, attributes set in
__init__, and whether PrettyMIDI.write sorts track events.  These back the
trusted-base rows used by C03 and C16; a mismatch is an analysis error."""
import ast
import importlib.util
import os

from .loader import AnalysisError

CLASSES = {
    'Note': 'containers.py', 'PitchBend': 'containers.py', 'ControlChange': 'containers.py', 'TimeSignature': 'containers.py',
    'KeySignature': 'containers.py', 'Instrument': 'instrument.py', 'PrettyMIDI': 'pretty_midi.py',
}


class PMFacts:
  def __init__(self):
    spec = importlib.util.find_spec('pretty_midi')
    if spec is None or not spec.submodule_search_locations:
      raise AnalysisError('pretty_midi is not installed: its API facts cannot be read')
    self.root = list(spec.submodule_search_locations)[0]
    self.ctor = {}      # class -> [param names] (without self)
    self.defaults = {}  # class -> {param: default source}
    self.attrs = {}     # class -> set of attributes assigned on self in __init__ (any depth) or as properties/methods
    self.methods = {}
    trees = {}
    for cls, fn in CLASSES.items():
      path = os.path.join(self.root, fn)
      if fn not in trees:
        try:
          trees[fn] = ast.parse(open(path).read())
        except (OSError, SyntaxError) as e:
          raise AnalysisError('cannot parse %s: %s' % (path, e))
      node = next((n for n in trees[fn].body if isinstance(n, ast.ClassDef) and n.name == cls), None)
      if node is None:
        raise AnalysisError('pretty_midi.%s not found in %s' % (cls, fn))
      init = next((n for n in node.body if isinstance(n, ast.FunctionDef) and n.name == '__init__'), None)
      if init is None:
        raise AnalysisError('pretty_midi.%s has no __init__' % cls)
      a = init.args
      self.ctor[cls] = [x.arg for x in a.args[1:]]
      nd = len(a.defaults)
      self.defaults[cls] = {p.arg: ast.unparse(d) for p, d in zip(a.args[len(a.args) - nd:], a.defaults)}
      attrs = set()
      for n in ast.walk(init):
        if isinstance(n, ast.Attribute) and isinstance(n.ctx, ast.Store) and isinstance(n.value, ast.Name) and n.value.id == 'self':
          attrs.add(n.attr)
      self.methods[cls] = set(n.name for n in node.body if isinstance(n, ast.FunctionDef))
      self.attrs[cls] = attrs
    self.tree_pm = trees['pretty_midi.py']

  def write_sorts_events(self):
    """PrettyMIDI.write sorts the events of each track before writing."""
    node = next(n for n in self.tree_pm.body if isinstance(n, ast.ClassDef) and n.name == 'PrettyMIDI')
    w = next((n for n in node.body if isinstance(n, ast.FunctionDef) and n.name == 'write'), None)
    if w is None:
      return False
    for n in ast.walk(w):
      if isinstance(n, ast.Call):
        f = n.func
        if (isinstance(f, ast.Name) and f.id == 'sorted') or (isinstance(f, ast.Attribute) and f.attr == 'sort'):
          return True
    return False

  def write_keeps_instrument_order(self):
    """PrettyMIDI.write walks self.instruments in list order (one track per instrument, channels handed out in that order)
    and never sorts the list: the order in which instruments are appended reaches the file."""
    node = next(n for n in self.tree_pm.body if isinstance(n, ast.ClassDef) and n.name == 'PrettyMIDI')
    w = next((n for n in node.body if isinstance(n, ast.FunctionDef) and n.name == 'write'), None)
    if w is None:
      return False
    walks = any(isinstance(n, ast.For) and 'self.instruments' in ast.unparse(n.iter) and 'sorted' not in ast.unparse(n.iter) for n in ast.walk(w))
    sorts = any(isinstance(n, ast.Call) and isinstance(n.func, ast.Attribute) and n.func.attr == 'sort' and ast.unparse(n.func.value) == 'self.instruments'
                for n in ast.walk(w))
    return walks and not sorts

  def get_tempo_changes_is_pure(self):
    node = next(n for n in self.tree_pm.body if isinstance(n, ast.ClassDef) and n.name == 'PrettyMIDI')
    g = next((n for n in node.body if isinstance(n, ast.FunctionDef) and n.name == 'get_tempo_changes'), None)
    if g is None:
      return False
    for n in ast.walk(g):
      if isinstance(n, ast.Attribute) and isinstance(n.ctx, ast.Store) and isinstance(n.value, ast.Name) and n.value.id == 'self':
        return False
      if isinstance(n, ast.Raise):
        return False
    return True

  def division_can_be_negative(self):
    """(True | False | None, why): can PrettyMIDI(file).resolution be negative?  The installed mido reads the header's division
    field with a struct format; a signed code ('h') turns an SMPTE division (high bit set) into a negative ticks_per_beat, which
    PrettyMIDI.__init__ stores as its resolution without a sign test.  None when the sources do not have the expected shape."""
    spec = importlib.util.find_spec('mido')
    if spec is None or not spec.submodule_search_locations:
      return (None, 'mido is not installed')
    path = os.path.join(list(spec.submodule_search_locations)[0], 'midifiles', 'midifiles.py')
    try:
      tree = ast.parse(open(path).read())
    except (OSError, SyntaxError) as e:
      return (None, 'cannot parse %s: %s' % (path, e))
    rh = next((n for n in ast.walk(tree) if isinstance(n, ast.FunctionDef) and n.name == 'read_file_header'), None)
    fmt = None
    for n in ast.walk(rh) if rh is not None else []:
      if isinstance(n, ast.Call) and ast.unparse(n.func) == 'struct.unpack' and n.args and isinstance(n.args[0], ast.Constant) and isinstance(n.args[0].value, str):
        fmt = n.args[0].value
    if fmt is None:
      return (None, 'mido.midifiles.read_file_header: no struct.unpack with a literal format')
    codes = fmt.lstrip('<>!=@')
    if len(codes) != 3:
      return (None, 'mido.midifiles.read_file_header: unexpected header format %r' % fmt)
    node = next(n for n in self.tree_pm.body if isinstance(n, ast.ClassDef) and n.name == 'PrettyMIDI')
    init = next(n for n in node.body if isinstance(n, ast.FunctionDef) and n.name == '__init__')
    stores = [n for n in ast.walk(init) if isinstance(n, ast.Assign) and any(ast.unparse(t) == 'self.resolution' for t in n.targets) and 'ticks_per_beat' in ast.unparse(n.value)]
    guarded = any(isinstance(n, ast.If) and ('resolution' in ast.unparse(n.test) or 'ticks_per_beat' in ast.unparse(n.test)) and any(isinstance(x, ast.Raise) for x in ast.walk(n))
                  for n in ast.walk(init))
    if not stores:
      return (None, 'PrettyMIDI.__init__ does not take its resolution from ticks_per_beat')
    if codes[2] == 'h' and not guarded:
      return (True, 'mido reads the header with struct format %r (division as a *signed* short) and PrettyMIDI.__init__ stores ticks_per_beat as resolution without a sign test' % fmt)
    return (False, 'header format %r%s' % (fmt, ', sign tested in PrettyMIDI.__init__' if guarded else ''))
