"""Path-wise symbolic values of a straight-line statement block (assignments, augmented assignments, if/elif/else, early
`continue`): for every path through the block, the tests taken (with polarity, operands rewritten in terms of the values at
block entry) and the final value of every location written.  Locations are identified by their normalised text (a name,
`self._events[i]`, `note.pitch`).  No loops, no calls with effects, no solver: a block that contains anything else is
refused (PathError), and the caller gives no verdict.

The result is compared with reference formulas through normal forms (sa.nf) - the engine only substitutes."""
import ast
import copy

from sa.loader import norm_text


class PathError(Exception):
  pass


class _Subst(ast.NodeTransformer):
  def __init__(self, env):
    self.env = env

  def generic_visit(self, node):
    if isinstance(node, ast.expr):
      t = norm_text(node)
      if t in self.env and isinstance(getattr(node, 'ctx', ast.Load()), ast.Load):
        return copy.deepcopy(self.env[t])
    return super().generic_visit(node)

  def visit(self, node):
    if isinstance(node, ast.expr):
      t = norm_text(node)
      if t in self.env and isinstance(getattr(node, 'ctx', ast.Load()), ast.Load):
        return copy.deepcopy(self.env[t])
    return super().visit(node)


def subst(expr, env):
  return _Subst(env).visit(copy.deepcopy(expr))


MAX_PATHS = 64


CALLS = '@calls'
RETURN = '@return'


def paths(stmts, env=None, pure_calls=(), effects=False, opaque=False, strict_exits=False):
  """[(conds, env, ended)] for every path through `stmts`.  conds: [(test expr in entry terms, polarity)];
  env: location text -> expr in entry terms; ended: 'fall' | 'continue' | 'return' | 'break'."""
  out = []

  def walk(todo, env, conds):
    """todo: list of statements still to execute (a flat continuation)."""
    while todo:
      st = todo[0]
      todo = todo[1:]
      if isinstance(st, ast.Expr) and isinstance(st.value, ast.Constant):
        continue
      if isinstance(st, ast.Pass):
        continue
      if isinstance(st, (ast.Assign, ast.AugAssign)) and isinstance(st.value, ast.IfExp):
        # `x = a if c else b` is `if c: x = a` / `else: x = b`
        def arm(v):
          c = copy.copy(st)
          c.value = v
          return c
        todo = [ast.If(test=st.value.test, body=[arm(st.value.body)], orelse=[arm(st.value.orelse)])] + todo
        continue
      if isinstance(st, ast.Assign) and len(st.targets) == 1:
        tgt = st.targets[0]
        if isinstance(tgt, ast.Tuple):
          if isinstance(st.value, ast.Tuple) and len(st.value.elts) == len(tgt.elts):
            vals = [subst(v, env) for v in st.value.elts]
            env = dict(env)
            for t, v in zip(tgt.elts, vals):
              env[norm_text(t)] = v
            continue
          if isinstance(st.value, ast.Call) and norm_text(st.value.func) == 'divmod' and len(st.value.args) == 2 and len(tgt.elts) == 2:
            a, b = (subst(x, env) for x in st.value.args)
            env = dict(env)
            env[norm_text(tgt.elts[0])] = ast.BinOp(left=a, op=ast.FloorDiv(), right=b)
            env[norm_text(tgt.elts[1])] = ast.BinOp(left=copy.deepcopy(a), op=ast.Mod(), right=copy.deepcopy(b))
            continue
          raise PathError('unsupported tuple assignment: %s' % norm_text(st))
        env = dict(env)
        env[norm_text(tgt)] = subst(st.value, env)
        continue
      if isinstance(st, ast.AugAssign):
        env = dict(env)
        cur = subst(_load(st.target), env)
        env[norm_text(st.target)] = ast.BinOp(left=cur, op=st.op, right=subst(st.value, env))
        continue
      if isinstance(st, ast.If):
        test = subst(st.test, env)
        walk(list(st.body) + todo, env, conds + [(test, True)])
        walk(list(st.orelse) + todo, env, conds + [(test, False)])
        return
      if isinstance(st, ast.Return) and isinstance(st.value, ast.IfExp):
        # `return a if c else b` is `if c: return a` / `else: return b`
        todo = [ast.If(test=st.value.test, body=[ast.Return(value=st.value.body)], orelse=[ast.Return(value=st.value.orelse)])] + todo
        continue
      if isinstance(st, (ast.Continue, ast.Break, ast.Return, ast.Raise)):
        if isinstance(st, ast.Return) and st.value is not None:
          env = dict(env)
          env[RETURN] = subst(st.value, dict((k, v) for k, v in env.items() if not k.startswith('@')))
        out.append((conds, env, type(st).__name__.lower()))
        if len(out) > MAX_PATHS:
          raise PathError('too many paths')
        return
      if isinstance(st, ast.Assert):
        continue
      if effects and isinstance(st, ast.Expr) and isinstance(st.value, ast.Call):
        # an effect call is recorded, in order, under the pseudo location '@calls' (its arguments in entry terms)
        env = dict(env)
        prev = env.get(CALLS)
        env[CALLS] = ast.Tuple(elts=(list(prev.elts) if prev is not None else []) + [subst(st.value, dict((k, v) for k, v in env.items() if k != CALLS))], ctx=ast.Load())
        continue
      if opaque:
        # a statement the engine does not read: every location it may write is forgotten (a later read of it is a fresh symbol,
        # written as the location itself).  An exit inside it (a return / raise in a loop body) cannot be followed: a caller that
        # reads *how a path ends* (strict_exits) gets no paths in that case, since what follows the statement may not be reached
        if strict_exits and any(isinstance(x, (ast.Return, ast.Raise)) for x in ast.walk(st)):
          raise PathError('an exit inside a statement that is not read path-wise: %s' % norm_text(st)[:50])
        env = dict(env)
        for x in ast.walk(st):
          if isinstance(x, (ast.Name, ast.Attribute, ast.Subscript)) and isinstance(getattr(x, 'ctx', None), (ast.Store, ast.Del)):
            env.pop(norm_text(x), None)
            for k in [k for k in env if k.startswith(norm_text(x) + '.') or k.startswith(norm_text(x) + '[')]:
              env.pop(k)
        continue
      raise PathError('unsupported statement: %s' % norm_text(st)[:60])
    out.append((conds, env, 'fall'))
    if len(out) > MAX_PATHS:
      raise PathError('too many paths')
  walk(list(stmts), dict(env or {}), [])
  return out


def _load(target):
  t = copy.deepcopy(target)
  for n in ast.walk(t):
    if hasattr(n, 'ctx'):
      n.ctx = ast.Load()
  return t
