"""A small typestate for sequences of numbers: which of {sorted, unique} is *established* for the value of an expression.

  sorted(x)                         -> sorted (and unique if x is)
  np.unique(x), sorted(set(x))      -> sorted, unique
  np.array / np.asarray / list / tuple (one argument) -> the argument's state
  [a] + x + [b], np.concatenate(([a], x, [b])), np.append, np.hstack, np.r_  (endpoints added around a sorted x whose
      elements lie between them) -> sorted; unique is lost, because an endpoint may coincide with an element of x, unless
      the source of x is filtered strictly inside the endpoints
  [s[i] for i in range(len(s)) if i == 0 or s[i - 1] < s[i]]  over a sorted s -> sorted, unique
  anything else -> None (unknown; the caller produces no verdict)"""
import ast

from sa import astutil as U
from sa.loader import norm_text, dotted

NP = ('np', 'numpy')


def _parts(node):
  """operands of a concatenation, or None"""
  if isinstance(node, ast.BinOp) and isinstance(node.op, ast.Add):
    l, r = _parts(node.left) or [node.left], _parts(node.right) or [node.right]
    return l + r
  if isinstance(node, ast.Call) and (dotted(node.func) or '').split('.')[0] in NP and (dotted(node.func) or '').split('.')[-1] in ('concatenate', 'hstack') and node.args and \
     isinstance(node.args[0], (ast.Tuple, ast.List)):
    return list(node.args[0].elts)
  if isinstance(node, ast.Call) and (dotted(node.func) or '').split('.')[0] in NP and (dotted(node.func) or '').split('.')[-1] == 'append' and len(node.args) == 2:
    return list(node.args)
  if isinstance(node, ast.Subscript) and (dotted(node.value) or '') in ('np.r_', 'numpy.r_') and isinstance(node.slice, ast.Tuple):
    return list(node.slice.elts)
  return None


def _singleton(node):
  return isinstance(node, (ast.List, ast.Tuple)) and len(node.elts) == 1


def _strictly_inside(node):
  """the elements come from a comprehension whose filter keeps them strictly between the endpoints (0 < t and t < total)"""
  lower = upper = False
  for c in ast.walk(node):
    if isinstance(c, ast.Compare) and all(isinstance(o, ast.Lt) for o in c.ops):
      ops = [c.left] + list(c.comparators)
      for a, b in zip(ops, ops[1:]):
        if U.const_value(a) in (0, 0.0) and U.const_value(a) is not False and 'time' in norm_text(b):
          lower = True
        if 'time' in norm_text(a) and 'total_time' in norm_text(b):
          upper = True
  return lower and upper


def state(node):
  if isinstance(node, ast.Call):
    d = dotted(node.func) or ''
    base, last = d.split('.')[0], d.split('.')[-1]
    if d == 'sorted' and node.args:
      inner = node.args[0]
      if isinstance(inner, ast.Call) and dotted(inner.func) in ('set', 'frozenset'):
        return frozenset(['sorted', 'unique'])
      s = state(inner)
      return frozenset(['sorted']) | (frozenset(['unique']) if s and 'unique' in s else frozenset())
    if base in NP and last == 'unique' and node.args:
      return frozenset(['sorted', 'unique'])
    if ((base in NP and last in ('array', 'asarray')) or d in ('list', 'tuple')) and len(node.args) >= 1:
      return state(node.args[0])
  parts = _parts(node)
  if parts is not None:
    big = [p for p in parts if not _singleton(p)]
    if len(big) == 1:
      s = state(big[0])
      if s is None:
        return None
      out = set()
      if 'sorted' in s:
        out.add('sorted')
      if 'unique' in s and _strictly_inside(big[0]):
        out.add('unique')
      return frozenset(out)
    return None
  if isinstance(node, (ast.ListComp, ast.GeneratorExp)) and len(node.generators) == 1:
    g = node.generators[0]
    # [s[i] for i in range(len(s)) if i == 0 or s[i - 1] < s[i]]
    if isinstance(g.target, ast.Name) and isinstance(g.iter, ast.Call) and dotted(g.iter.func) == 'range' and len(g.iter.args) == 1 and \
       isinstance(g.iter.args[0], ast.Call) and dotted(g.iter.args[0].func) == 'len' and isinstance(node.elt, ast.Subscript) and \
       norm_text(node.elt.slice) == g.target.id and norm_text(node.elt.value) == norm_text(g.iter.args[0].args[0]) and len(g.ifs) == 1:
      s_txt, i = norm_text(node.elt.value), g.target.id
      strict = False
      for c in ast.walk(g.ifs[0]):
        if isinstance(c, ast.Compare) and len(c.ops) == 1 and isinstance(c.ops[0], (ast.Lt, ast.Gt)):
          lo, hi = (c.left, c.comparators[0]) if isinstance(c.ops[0], ast.Lt) else (c.comparators[0], c.left)
          if all(isinstance(x, ast.Subscript) and norm_text(x.value) == s_txt for x in (lo, hi)) and norm_text(lo.slice) == '%s - 1' % i and norm_text(hi.slice) == i:
            strict = True
      inner = state(node.elt.value)
      if strict and inner is not None and 'sorted' in inner:
        return frozenset(['sorted', 'unique'])
      return None
    if isinstance(g.target, ast.Name) and isinstance(node.elt, ast.Attribute) and not isinstance(g.iter, ast.Call):
      return frozenset()      # a plain projection of stored messages: nothing is established
  return None
