"""§3.5 INV: abstract interpretation of event-sequence methods in a linear domain.

Tracked quantities of `self`:  L = len(self._events),  S = _start_step,
E = _end_step, as rational/affine forms (sa.nf.Rat) of their entry values
L0, S0, E0 and of the parameters.  Obligation for every mutator: assuming
E0 - S0 - L0 = 0 on entry, E - S - L = 0 on every exit (normal and raising).
Paths through if/else are enumerated; loops whose body leaves the state alone
are skipped, loops whose body preserves the invariant are havocked to fresh
symbols satisfying it; calls of self-methods apply the callee's path summary
(resolved through the MRO of the analysed class).  No code is executed."""
import ast

from . import nf, astutil as U
from .loader import norm_text, dotted, AnalysisError

R = nf.Rat
P = nf.Poly


def atom(a):
  return R(P.atom(a))


def const(c):
  return R(P.const(c))


class State:
  __slots__ = ('L', 'S', 'E', 'env', 'lens', 'conds', 'fresh', 'problems', 'consts', 'lam')

  def __init__(self, L, S, E):
    self.L, self.S, self.E = L, S, E
    self.env = {}      # local name -> Rat
    self.lens = {}     # local list name -> Rat (its length)
    self.conds = []    # [(test node, polarity)]
    self.problems = []
    self.consts = {}   # param -> python constant (for pruning)
    self.lam = {}      # local name -> Rat length of the list a lambda returns

  def copy(self):
    s = State(self.L, self.S, self.E)
    s.env = dict(self.env)
    s.lens = dict(self.lens)
    s.conds = list(self.conds)
    s.problems = list(self.problems)
    s.consts = dict(self.consts)
    s.lam = dict(self.lam)
    return s

  def inv(self):
    return (self.E - self.S - self.L).is_zero()


class Path:
  __slots__ = ('state', 'exit', 'node')

  def __init__(self, state, exit_, node):
    self.state = state
    self.exit = exit_     # 'return' | 'raise' | 'fall'
    self.node = node


class Analyzer:
  EVENTS = 'self._events'

  def __init__(self, program, cls, max_paths=400):
    self.P = program
    self.cls = cls
    self.max_paths = max_paths
    self._summaries = {}
    self._busy = set()
    self.idx_sites = []     # (method, node, ok, why): negated / decremented slice bounds on _events
    self._counter = 0

  # ---------------------------------------------------------------- expressions
  def rat(self, node, st):
    env = dict(st.env)
    b = _Builder(env, st, self)
    return b.rat(node)

  def list_len(self, node, st):
    """Length of a list-valued expression, as a Rat, or None."""
    if isinstance(node, ast.List):
      if any(isinstance(e, ast.Starred) for e in node.elts):
        return None
      return const(len(node.elts))
    if isinstance(node, ast.BinOp) and isinstance(node.op, ast.Mult):
      for a, b in ((node.left, node.right), (node.right, node.left)):
        la = self.list_len(a, st)
        if la is not None:
          try:
            return la * self.rat(b, st)
          except nf.NFError:
            return None
      return None
    if isinstance(node, ast.BinOp) and isinstance(node.op, ast.Add):
      a, b = self.list_len(node.left, st), self.list_len(node.right, st)
      return a + b if a is not None and b is not None else None
    if isinstance(node, ast.Name) and node.id in st.lens:
      return st.lens[node.id]
    if isinstance(node, ast.Call) and isinstance(node.func, ast.Name) and node.func.id in st.lam:
      return st.lam[node.func.id]
    if isinstance(node, ast.Call) and dotted(node.func) == 'list' and node.args:
      if norm_text(node.args[0]) in ('self', self.EVENTS):
        return st.L
      return atom('len(%s)' % norm_text(node.args[0]))
    if norm_text(node) == self.EVENTS:
      return st.L
    if isinstance(node, ast.Call) and dotted(node.func) == 'copy.deepcopy' and node.args and norm_text(node.args[0]) == self.EVENTS:
      return st.L
    return None

  # ---------------------------------------------------------------- summaries
  def summary(self, method):
    """Paths of `method` from the symbolic entry state (L0, S0, E0)."""
    key = method.fq
    if key in self._summaries:
      return self._summaries[key]
    if key in self._busy:
      raise AnalysisError('recursive event-sequence method %s' % key)
    self._busy.add(key)
    try:
      st = State(atom('L0'), atom('S0'), atom('E0'))
      paths = self.run_method(method, st)
      self._summaries[key] = paths
      return paths
    finally:
      self._busy.discard(key)

  def run_method(self, method, st):
    self._method = getattr(self, '_method', None)
    prev = self._method
    self._method = method
    try:
      paths = self.block(method.node.body, st)
    finally:
      self._method = prev
    out = []
    for p in paths:
      if p.exit == 'fall':
        p = Path(p.state, 'return', method.node)
      out.append(p)
    return out

  def resolve(self, name, start_after=None):
    """Method `name` through the MRO of the analysed class (after class
    `start_after` for super calls)."""
    mro = self.P.mro(self.cls)
    if start_after is not None:
      if start_after in mro:
        mro = mro[mro.index(start_after) + 1:]
    for c in mro:
      if name in c.methods:
        return c.methods[name]
    return None

  # ---------------------------------------------------------------- statements
  def block(self, stmts, st):
    paths = [Path(st, 'fall', None)]
    for s in stmts:
      nxt = []
      for p in paths:
        if p.exit != 'fall':
          nxt.append(p)
          continue
        nxt.extend(self.stmt(s, p.state))
      paths = nxt
      if len(paths) > self.max_paths:
        raise AnalysisError('too many paths in %s' % self._method.fq)
    return paths

  def stmt(self, s, st):
    st = st.copy()
    if isinstance(s, ast.Expr):
      if isinstance(s.value, ast.Constant):
        return [Path(st, 'fall', None)]
      if isinstance(s.value, ast.Call):
        return self.call_stmt(s.value, st, s)
      return [Path(st, 'fall', None)]
    if isinstance(s, ast.Return):
      if s.value is not None and isinstance(s.value, ast.Call):
        ps = self.call_stmt(s.value, st, s)
        return [Path(p.state, 'return' if p.exit == 'fall' else p.exit, s) for p in ps]
      return [Path(st, 'return', s)]
    if isinstance(s, ast.Raise):
      return [Path(st, 'raise', s)]
    if isinstance(s, (ast.Pass, ast.Assert, ast.Import, ast.ImportFrom, ast.Global)):
      return [Path(st, 'fall', None)]
    if isinstance(s, (ast.Break, ast.Continue)):
      return [Path(st, 'fall', None)]
    if isinstance(s, ast.If):
      return self.if_stmt(s, st)
    if isinstance(s, (ast.For, ast.While)):
      return self.loop(s, st)
    if isinstance(s, ast.Assign):
      return self.assign(s, st)
    if isinstance(s, ast.AugAssign):
      return self.augassign(s, st)
    if isinstance(s, ast.Delete):
      return self.delete(s, st)
    if isinstance(s, ast.Try):
      out = self.block(s.body, st)
      for h in s.handlers:
        out.extend(self.block(h.body, st.copy()))
      return out
    if isinstance(s, ast.With):
      return self.block(s.body, st)
    if isinstance(s, (ast.FunctionDef, ast.ClassDef)):
      return [Path(st, 'fall', None)]
    st.problems.append((s, 'statement form %s is not modelled' % type(s).__name__))
    return [Path(st, 'fall', None)]

  def if_stmt(self, s, st):
    truth = self.truth(s.test, st)
    out = []
    if truth is not False:
      a = st.copy()
      a.conds.append((s.test, True))
      out.extend(self.block(s.body, a))
    if truth is not True:
      b = st.copy()
      b.conds.append((s.test, False))
      out.extend(self.block(s.orelse, b))
    return out

  def truth(self, test, st):
    if isinstance(test, ast.Name) and test.id in st.consts:
      return bool(st.consts[test.id])
    if isinstance(test, ast.UnaryOp) and isinstance(test.op, ast.Not):
      t = self.truth(test.operand, st)
      return None if t is None else not t
    if isinstance(test, ast.Compare) and len(test.ops) == 1 and isinstance(test.ops[0], (ast.Is, ast.IsNot)) and \
        isinstance(test.left, ast.Name) and test.left.id in st.consts and isinstance(test.comparators[0], ast.Constant):
      r = st.consts[test.left.id] is test.comparators[0].value
      return r if isinstance(test.ops[0], ast.Is) else not r
    if isinstance(test, ast.BoolOp):
      vals = [self.truth(v, st) for v in test.values]
      if isinstance(test.op, ast.And):
        if any(v is False for v in vals):
          return False
        if all(v is True for v in vals):
          return True
      else:
        if any(v is True for v in vals):
          return True
        if all(v is False for v in vals):
          return False
    return None

  # --- effects
  def _touches(self, node):
    """Does this statement subtree touch tracked state (directly or via self calls)?"""
    for n in ast.walk(node):
      if isinstance(n, ast.Attribute) and isinstance(n.value, ast.Name) and n.value.id == 'self' and n.attr in ('_events', '_start_step', '_end_step') and \
          isinstance(n.ctx, (ast.Store, ast.Del)):
        return True
      if isinstance(n, ast.Call) and isinstance(n.func, ast.Attribute):
        b = n.func.value
        if norm_text(b) == self.EVENTS and n.func.attr in ('append', 'extend', 'pop', 'insert', 'clear', 'remove'):
          return True
        if isinstance(b, ast.Name) and b.id == 'self':
          m = self.resolve(n.func.attr)
          if m is not None and self.modifies(m):
            return True
        if isinstance(b, ast.Call) and isinstance(b.func, ast.Name) and b.func.id == 'super':
          return True
      if isinstance(n, (ast.Subscript,)) and isinstance(n.ctx, (ast.Store, ast.Del)) and norm_text(n.value) == self.EVENTS and isinstance(n.slice, ast.Slice):
        return True
      if isinstance(n, ast.AugAssign) and norm_text(n.target) in (self.EVENTS, 'self._start_step', 'self._end_step'):
        return True
    return False

  def modifies(self, method, _seen=None):
    _seen = _seen or set()
    if method.fq in _seen:
      return False
    _seen.add(method.fq)
    for n in ast.walk(method.node):
      if isinstance(n, ast.Attribute) and isinstance(n.value, ast.Name) and n.value.id == 'self' and n.attr in ('_events', '_start_step', '_end_step') and \
          isinstance(n.ctx, (ast.Store, ast.Del)):
        return True
      if isinstance(n, ast.Call) and isinstance(n.func, ast.Attribute):
        b = n.func.value
        if norm_text(b) == self.EVENTS and n.func.attr in ('append', 'extend', 'pop', 'insert', 'clear', 'remove'):
          return True
        if isinstance(b, ast.Name) and b.id == 'self':
          m = self.resolve(n.func.attr)
          if m is not None and m is not method and self.modifies(m, _seen):
            return True
        if isinstance(b, ast.Call) and isinstance(b.func, ast.Name) and b.func.id == 'super':
          return True
      if isinstance(n, ast.Subscript) and isinstance(n.ctx, (ast.Store, ast.Del)) and norm_text(n.value) == self.EVENTS and isinstance(n.slice, ast.Slice):
        return True
      if isinstance(n, ast.AugAssign) and norm_text(n.target) == self.EVENTS:
        return True
    return False

  def loop(self, s, st):
    body = s.body
    # local list accumulation over the events:  for e in self._events: acc += <list of constant length c>
    if isinstance(s, ast.For) and norm_text(s.iter) in (self.EVENTS, 'self') and not self._touches(ast.Module(body=body, type_ignores=[])):
      per_iter = {}
      simple = True
      for b in body:
        if isinstance(b, ast.AugAssign) and isinstance(b.op, ast.Add) and isinstance(b.target, ast.Name) and b.target.id in st.lens:
          ln = self.list_len(b.value, st)
          if ln is None:
            simple = False
          else:
            per_iter[b.target.id] = per_iter.get(b.target.id, const(0)) + ln
        elif isinstance(b, ast.Expr) and isinstance(b.value, ast.Call) and isinstance(b.value.func, ast.Attribute) and isinstance(b.value.func.value, ast.Name) and \
            b.value.func.value.id in st.lens and b.value.func.attr in ('append', 'extend'):
          ln = const(1) if b.value.func.attr == 'append' else self.list_len(b.value.args[0], st)
          if ln is None:
            simple = False
          else:
            per_iter[b.value.func.value.id] = per_iter.get(b.value.func.value.id, const(0)) + ln
        else:
          for n in ast.walk(b):
            if isinstance(n, ast.Name) and isinstance(n.ctx, ast.Store) and n.id in st.lens:
              simple = False
      for k, v in per_iter.items():
        st.lens[k] = st.lens[k] + st.L * v if simple else None
      if not simple:
        for k in list(st.lens):
          if any(isinstance(n, ast.Name) and n.id == k for n in ast.walk(ast.Module(body=body, type_ignores=[]))):
            st.lens.pop(k, None)
      return [Path(st, 'fall', None)]
    if not self._touches(ast.Module(body=body, type_ignores=[])):
      # locals assigned in the loop become unknown
      for n in ast.walk(ast.Module(body=body, type_ignores=[])):
        if isinstance(n, ast.Name) and isinstance(n.ctx, ast.Store):
          st.env.pop(n.id, None)
          st.lens.pop(n.id, None)
      # exits from inside the loop (return / raise) leave with the current state
      out = [Path(st, 'fall', None)]
      for n in ast.walk(ast.Module(body=body, type_ignores=[])):
        if isinstance(n, ast.Return):
          out.append(Path(st.copy(), 'return', n))
        elif isinstance(n, ast.Raise):
          out.append(Path(st.copy(), 'raise', n))
      return out
    # the body modifies the state: it must preserve the invariant from an arbitrary invariant state
    self._counter += 1
    k = self._counter
    head = st.copy()
    head.L, head.S = atom('L_%d' % k), atom('S_%d' % k)
    head.E = head.S + head.L
    for n in ast.walk(ast.Module(body=body, type_ignores=[])):
      if isinstance(n, ast.Name) and isinstance(n.ctx, ast.Store):
        head.env.pop(n.id, None)
        head.lens.pop(n.id, None)
    if isinstance(s, ast.For):
      for n in ast.walk(s.target):
        if isinstance(n, ast.Name):
          head.env.pop(n.id, None)
    if not st.inv():
      st.problems.append((s, 'a loop that changes the sequence is entered while end_step - start_step != len(events)'))
    paths = self.block(body, head)
    out = []
    ok = True
    for p in paths:
      if p.exit == 'fall':
        if not p.state.inv():
          ok = False
          st.problems.append((s, 'an iteration of this loop can end with end_step - start_step - len(events) = %r' % (p.state.E - p.state.S - p.state.L,)))
        st.problems.extend(x for x in p.state.problems if x not in st.problems)
      else:
        out.append(p)     # return / raise from inside the loop
    after = st.copy()
    self._counter += 1
    k2 = self._counter
    after.L, after.S = atom('L_%d' % k2), atom('S_%d' % k2)
    after.E = after.S + after.L
    after.env = dict(head.env)
    after.lens = dict(head.lens)
    out.append(Path(after, 'fall', None))
    # zero iterations
    out.append(Path(st, 'fall', None))
    return out

  def assign(self, s, st):
    if len(s.targets) != 1:
      # a = b = v: the value is evaluated once and stored into each target from left to right
      if isinstance(s.value, ast.Call) and self._is_self_call(s.value):
        st.problems.append((s, 'chained assignment of a self call is not modelled'))
        return [Path(st, 'fall', None)]
      paths = [Path(st, 'fall', None)]
      for t_ in s.targets:
        nxt = []
        for p_ in paths:
          if p_.exit != 'fall':
            nxt.append(p_)
            continue
          one = ast.copy_location(ast.Assign(targets=[t_], value=s.value), s)
          nxt.extend(self.assign(one, p_.state))
        paths = nxt
      return paths
    t = s.targets[0]
    if isinstance(t, (ast.Tuple, ast.List)) and isinstance(s.value, (ast.Tuple, ast.List)) and len(t.elts) == len(s.value.elts) and \
        any(norm_text(e) in (self.EVENTS, 'self._start_step', 'self._end_step') for e in t.elts):
      # a, b = x, y on tracked fields: the right-hand sides are evaluated before any store; modelled pairwise when no
      # right-hand side reads a tracked field that the statement also writes
      written = set(norm_text(e) for e in t.elts)
      if any(norm_text(x) in written for v_ in s.value.elts for x in ast.walk(v_)):
        st.problems.append((s, 'tuple assignment %s reads what it writes: not modelled' % norm_text(s)[:60]))
        return [Path(st, 'fall', None)]
      paths = [Path(st, 'fall', None)]
      for t_, v_ in zip(t.elts, s.value.elts):
        nxt = []
        for p_ in paths:
          if p_.exit != 'fall':
            nxt.append(p_)
            continue
          nxt.extend(self.assign(ast.copy_location(ast.Assign(targets=[t_], value=v_), s), p_.state))
        paths = nxt
      return paths
    tt = norm_text(t)
    v = s.value
    if tt == self.EVENTS:
      ln = self.list_len(v, st)
      if ln is None and isinstance(v, ast.Subscript) and norm_text(v.value) == self.EVENTS and isinstance(v.slice, ast.Slice) and v.slice.lower is None and v.slice.upper is not None:
        ln = atom('min(L,%s)' % norm_text(v.slice.upper))
      if ln is None:
        st.problems.append((s, 'the new length of _events after %s is not derivable' % norm_text(s)))
        self._counter += 1
        ln = atom('L_unknown_%d' % self._counter)
      st.L = ln
      return [Path(st, 'fall', None)]
    if tt in ('self._start_step', 'self._end_step'):
      try:
        r = self.rat(v, st)
      except nf.NFError:
        self._counter += 1
        r = atom('unknown_%d' % self._counter)
      if tt == 'self._start_step':
        st.S = r
      else:
        st.E = r
      return [Path(st, 'fall', None)]
    if isinstance(t, ast.Subscript) and norm_text(t.value) == self.EVENTS:
      if isinstance(t.slice, ast.Slice):
        lo, hi = t.slice.lower, t.slice.upper
        ln = self.list_len(v, st)
        if ln is not None and lo is None and hi is not None and U.const_value(hi) == 0:
          st.L = st.L + ln          # events[:0] = list  (prepend)
        elif ln is not None and hi is None and lo is not None and norm_text(lo) in ('len(self)', 'len(self._events)'):
          st.L = st.L + ln
        else:
          st.problems.append((s, 'slice assignment %s is not modelled' % norm_text(s)))
      return [Path(st, 'fall', None)]
    if isinstance(t, ast.Name):
      if isinstance(v, ast.Lambda):
        ln = self.list_len(v.body, st)
        if ln is not None:
          st.lam[t.id] = ln
        return [Path(st, 'fall', None)]
      ln = self.list_len(v, st)
      if ln is not None and isinstance(v, (ast.List, ast.BinOp, ast.Call)):
        st.lens[t.id] = ln
      else:
        st.lens.pop(t.id, None)
      if isinstance(v, ast.Call) and self._is_self_call(v):
        ps = self.call_stmt(v, st, s)
        for p in ps:
          p.state.env.pop(t.id, None)
        return ps
      try:
        st.env[t.id] = self.rat(v, st)
      except nf.NFError:
        st.env.pop(t.id, None)
      return [Path(st, 'fall', None)]
    if isinstance(t, (ast.Tuple, ast.List)):
      for e in t.elts:
        if isinstance(e, ast.Name):
          st.env.pop(e.id, None)
          st.lens.pop(e.id, None)
      if isinstance(v, ast.Call) and self._is_self_call(v):
        return self.call_stmt(v, st, s)
    return [Path(st, 'fall', None)]

  def _is_self_call(self, c):
    f = c.func
    if isinstance(f, ast.Attribute):
      b = f.value
      if isinstance(b, ast.Name) and b.id == 'self':
        return True
      if isinstance(b, ast.Call) and isinstance(b.func, ast.Name) and b.func.id == 'super':
        return True
    return False

  def augassign(self, s, st):
    tt = norm_text(s.target)
    if tt == self.EVENTS and isinstance(s.op, ast.Add):
      ln = self.list_len(s.value, st)
      if ln is None:
        st.problems.append((s, 'length added by %s is not derivable' % norm_text(s)))
        self._counter += 1
        ln = atom('unknown_%d' % self._counter)
      st.L = st.L + ln
    elif tt in ('self._start_step', 'self._end_step'):
      try:
        v = self.rat(s.value, st)
      except nf.NFError:
        self._counter += 1
        v = atom('unknown_%d' % self._counter)
      cur = st.S if tt == 'self._start_step' else st.E
      new = {ast.Add: lambda: cur + v, ast.Sub: lambda: cur - v, ast.Mult: lambda: cur * v}.get(type(s.op), lambda: None)()
      if new is None:
        st.problems.append((s, 'operator of %s is not modelled' % norm_text(s)))
        new = cur
      if tt == 'self._start_step':
        st.S = new
      else:
        st.E = new
    elif isinstance(s.target, ast.Name):
      n = s.target.id
      if n in st.lens and isinstance(s.op, ast.Add):
        ln = self.list_len(s.value, st)
        st.lens[n] = st.lens[n] + ln if ln is not None else None
        if st.lens[n] is None:
          st.lens.pop(n)
      elif n in st.env:
        try:
          v = self.rat(s.value, st)
          st.env[n] = {ast.Add: lambda: st.env[n] + v, ast.Sub: lambda: st.env[n] - v, ast.Mult: lambda: st.env[n] * v}.get(type(s.op), lambda: None)()
          if st.env[n] is None:
            st.env.pop(n)
        except nf.NFError:
          st.env.pop(n, None)
    return [Path(st, 'fall', None)]

  def _cond_le(self, a, st):
    """Do the path conditions establish  a <= L ?  (a: Rat)"""
    for (t, pol) in st.conds:
      try:
        c = nf.compare_nf(t, None, pol)
      except nf.NFError:
        c = None
      if c is None:
        continue
      b = _Builder(dict(st.env), st, self)
      try:
        cc = b.compare(t, pol)
      except nf.NFError:
        continue
      if cc is None:
        continue
      e, sym = cc          # e sym 0
      if sym in ('<=', '<') and e.equals(a - st.L):
        return True
    return False

  def delete(self, s, st):
    for t in s.targets:
      if not (isinstance(t, ast.Subscript) and norm_text(t.value) == self.EVENTS):
        continue
      sl = t.slice
      if not isinstance(sl, ast.Slice):
        st.L = st.L - const(1)
        continue
      lo, hi = sl.lower, sl.upper
      self._check_bound(lo, st, t)
      self._check_bound(hi, st, t)
      try:
        if hi is None and lo is not None:
          a = self.rat(lo, st)
          if self._cond_le(a, st) or a.equals(st.L):
            st.L = a
          else:
            st.problems.append((s, 'del %s: the path conditions do not establish %s <= len(events); the resulting length is unknown' % (norm_text(t), norm_text(lo))))
            self._counter += 1
            st.L = atom('unknown_%d' % self._counter)
        elif lo is not None and hi is not None and U.const_value(lo) == 0 or (lo is None and hi is not None):
          b = self.rat(hi, st)
          neg = isinstance(hi, ast.UnaryOp) and isinstance(hi.op, ast.USub)
          if neg:
            # [0:-k] keeps the last k elements *only if k > 0*
            k = self.rat(hi.operand, st)
            st.L = k
          else:
            st.L = st.L - b
        else:
          st.problems.append((s, 'del %s is not modelled' % norm_text(t)))
      except nf.NFError:
        st.problems.append((s, 'del %s is not modelled' % norm_text(t)))
    return [Path(st, 'fall', None)]

  def _check_bound(self, b, st, node):
    """IDX(b): a negated or decremented slice bound must be provably non-negative."""
    if b is None:
      return
    if isinstance(b, ast.UnaryOp) and isinstance(b.op, ast.USub) and U.const_value(b) is None:
      self.idx_sites.append((self._method, node, False, 'slice bound %s is negated: when %s is 0 the bound is 0, not "from the end" (the slice silently changes meaning)' % (norm_text(b), norm_text(b.operand))))
      return
    if isinstance(b, ast.BinOp) and isinstance(b.op, ast.Sub):
      try:
        l, r = self.rat(b.left, st), self.rat(b.right, st)
      except nf.NFError:
        self.idx_sites.append((self._method, node, False, 'slice bound %s cannot be shown non-negative' % norm_text(b)))
        return
      ok = l.equals(st.L) and self._cond_le(r, st)
      self.idx_sites.append((self._method, node, ok, 'slice bound %s is non-negative on this path' % norm_text(b) if ok else
                             'slice bound %s may be negative (a negative bound counts from the end)' % norm_text(b)))

  def call_stmt(self, c, st, node):
    f = c.func
    if isinstance(f, ast.Attribute):
      b = f.value
      if norm_text(b) == self.EVENTS:
        if f.attr == 'append':
          st.L = st.L + const(1)
        elif f.attr == 'extend' and c.args:
          ln = self.list_len(c.args[0], st)
          if ln is None:
            st.problems.append((node, 'length added by %s is not derivable' % norm_text(c)))
            self._counter += 1
            ln = atom('unknown_%d' % self._counter)
          st.L = st.L + ln
        elif f.attr == 'pop':
          st.L = st.L - const(1)
        elif f.attr == 'insert':
          st.L = st.L + const(1)
        elif f.attr == 'clear':
          st.L = const(0)
        return [Path(st, 'fall', None)]
      callee = None
      if isinstance(b, ast.Name) and b.id == 'self':
        callee = self.resolve(f.attr)
      elif isinstance(b, ast.Call) and isinstance(b.func, ast.Name) and b.func.id == 'super':
        callee = self.resolve(f.attr, start_after=self._method.cls)
      if callee is not None and (self.modifies(callee) or any(isinstance(n, ast.Raise) for n in ast.walk(callee.node))):
        return self.apply(callee, c, st, node)
    elif isinstance(f, ast.Name):
      # a function defined inside the method that uses `self` (a closure over the object): not modelled
      try:
        meth = self._method.node
      except AttributeError:
        meth = None
      if meth is not None:
        for d_ in ast.walk(meth):
          if isinstance(d_, (ast.FunctionDef, ast.Lambda)) and d_ is not meth and getattr(d_, 'name', None) == f.id and \
             any(isinstance(x, ast.Name) and x.id == 'self' for x in ast.walk(d_)):
            st.problems.append((node, 'call of the local function %s, which works on self, is not followed' % f.id))
    return [Path(st, 'fall', None)]

  def apply(self, callee, call, st, node):
    """Run the callee from the current state with its parameters bound."""
    params = callee.params()[1:] if callee.params() and callee.params()[0] == 'self' else callee.params()
    inner = State(st.L, st.S, st.E)
    a = callee.node.args
    defaults = dict(zip([x.arg for x in a.args[len(a.args) - len(a.defaults):]], a.defaults))
    bound = {}
    for p, arg in zip(params, call.args):
      bound[p] = arg
    for k in call.keywords:
      if k.arg:
        bound[k.arg] = k.value
    for p in params:
      src = bound.get(p, defaults.get(p))
      if src is None:
        continue
      outer = st if p in bound else State(st.L, st.S, st.E)
      if isinstance(src, ast.Constant) and (isinstance(src.value, bool) or src.value is None):
        inner.consts[p] = src.value
        continue
      if isinstance(src, ast.Name) and src.id in st.consts and p in bound:
        inner.consts[p] = st.consts[src.id]
        continue
      ln = self.list_len(src, outer)
      if ln is not None and isinstance(src, (ast.Name, ast.List, ast.Call, ast.BinOp)) and not isinstance(src, ast.Constant):
        inner.lens[p] = ln
      try:
        inner.env[p] = self.rat(src, outer)
      except nf.NFError:
        pass
    prev = getattr(self, '_method', None)
    self._method = callee
    try:
      paths = self.block(callee.node.body, inner)
    finally:
      self._method = prev
    out = []
    for p in paths:
      ns = st.copy()
      ns.L, ns.S, ns.E = p.state.L, p.state.S, p.state.E
      ns.problems.extend(x for x in p.state.problems if x not in ns.problems)
      if p.exit == 'raise':
        out.append(Path(ns, 'raise', p.node))
      else:
        out.append(Path(ns, 'fall', None))
    # merge identical fall-through states
    uniq = []
    for p in out:
      if p.exit == 'fall' and any(q.exit == 'fall' and q.state.L.equals(p.state.L) and q.state.S.equals(p.state.S) and q.state.E.equals(p.state.E) for q in uniq):
        continue
      uniq.append(p)
    return uniq


class _Builder(nf.Builder):
  """nf.Builder that knows len(self), start/end step and local list lengths."""

  def __init__(self, env, st, an):
    nf.Builder.__init__(self, env, strip=('float', 'int'))
    self.st = st
    self.an = an

  def _rat(self, node):
    t = None
    if isinstance(node, (ast.Attribute, ast.Call)):
      try:
        t = norm_text(node)
      except Exception:
        t = None
    if t in ('len(self)', 'len(self._events)'):
      return self.st.L
    if t in ('self._start_step', 'self.start_step'):
      return self.st.S
    if t in ('self._end_step', 'self.end_step'):
      return self.st.E
    if isinstance(node, ast.Call) and dotted(node.func) == 'len' and node.args:
      ln = self.an.list_len(node.args[0], self.st)
      if ln is not None:
        return ln
    return nf.Builder._rat(self, node)

  def compare(self, test, polarity=True):
    neg = not polarity
    while isinstance(test, ast.UnaryOp) and isinstance(test.op, ast.Not):
      neg = not neg
      test = test.operand
    if not isinstance(test, ast.Compare) or len(test.ops) != 1:
      return None
    l, r = self.rat(test.left), self.rat(test.comparators[0])
    op = type(test.ops[0])
    table = {ast.Lt: ('<', l - r), ast.LtE: ('<=', l - r), ast.Gt: ('<', r - l), ast.GtE: ('<=', r - l), ast.Eq: ('==', l - r), ast.NotEq: ('!=', l - r)}
    if op not in table:
      return None
    sym, e = table[op]
    if neg:
      if sym == '<':
        sym, e = '<=', -e
      elif sym == '<=':
        sym, e = '<', -e
      else:
        sym = '!=' if sym == '==' else '=='
    return (e, sym)
