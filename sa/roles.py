"""Role discovery for local variables, so that rules do not depend on how locals
are spelled.  A rule names the *role* of a local by how it is defined (e.g.
"the name bound to sorted(list(<seq>.notes), ...)"); `canon` then returns a copy
of the function AST with the discovered names replaced by the canonical role
names the rule is written in.  An undiscoverable role is an AnalysisError (the
machinery cannot decide), never a violation."""
import ast
import copy

from . import astutil as U
from .loader import AnalysisError, norm_text, dotted


def assigned_where(fn, pred, store_kinds=(ast.Assign,)):
  """Names n such that some `n = value` in fn satisfies pred(value, stmt)."""
  out = []
  for st in U.walk_stmts(fn):
    if isinstance(st, ast.Assign) and len(st.targets) == 1 and isinstance(st.targets[0], ast.Name):
      try:
        if pred(st.value, st):
          if st.targets[0].id not in out:
            out.append(st.targets[0].id)
      except Exception:
        pass
  return out


def aug_where(fn, pred):
  out = []
  for st in U.walk_stmts(fn):
    if isinstance(st, ast.AugAssign) and isinstance(st.target, ast.Name):
      try:
        if pred(st) and st.target.id not in out:
          out.append(st.target.id)
      except Exception:
        pass
  return out


def loop_target_where(fn, pred):
  out = []
  for n in ast.walk(fn):
    if isinstance(n, (ast.For, ast.comprehension)) and isinstance(n.target, ast.Name):
      try:
        if pred(n.iter, n) and n.target.id not in out:
          out.append(n.target.id)
      except Exception:
        pass
  return out


def is_call(v, name):
  return isinstance(v, ast.Call) and (dotted(v.func) or '').split('.')[-1] == name.split('.')[-1] and \
      ((dotted(v.func) or '') == name or '.' not in name or (dotted(v.func) or '').endswith(name))


def discover(fi, spec, required=True):
  """spec: {canonical: finder(fn) -> [names]}; each must find exactly one name."""
  fn = fi.node
  mapping = {}
  for canon_name, finder in spec.items():
    found = finder(fn)
    if len(found) != 1:
      if required:
        raise AnalysisError('%s: cannot identify the local playing the role of `%s` (found %s)' % (fi.qualname, canon_name, found))
      continue
    mapping[found[0]] = canon_name
  # two roles must not collapse onto one name, and a canonical name must not already be used by another local
  if len(set(mapping.values())) != len(mapping):
    raise AnalysisError('%s: role discovery is ambiguous: %s' % (fi.qualname, mapping))
  return mapping


def canon(fi, mapping):
  """Deep copy of fi.node with locals renamed actual -> canonical."""
  if all(k == v for k, v in mapping.items()):
    return fi.node
  used = set(n.id for n in ast.walk(fi.node) if isinstance(n, ast.Name))
  for actual, c in mapping.items():
    if actual != c and c in used and c not in mapping:
      raise AnalysisError('%s: canonical name %s is used by an unrelated local' % (fi.qualname, c))
  fn = copy.deepcopy(fi.node)
  for n in ast.walk(fn):
    if isinstance(n, ast.Name) and n.id in mapping:
      n.id = mapping[n.id]
  return fn


class Canon:
  """A FuncInfo look-alike whose .node is the canonicalised copy."""

  def __init__(self, fi, mapping):
    self.fi = fi
    self.node = canon(fi, mapping)
    self.module = fi.module
    self.qualname = fi.qualname
    self.name = fi.name
    self.nested = fi.nested
    self.mapping = mapping

  def params(self):
    return self.fi.params()

  @property
  def fq(self):
    return self.fi.fq


class NestedView:
  """A nested function of a canonicalised function (node taken from the copy)."""

  def __init__(self, outer, name):
    self.node = next((n for n in ast.walk(outer.node) if isinstance(n, ast.FunctionDef) and n.name == name and n is not outer.node), None)
    self.module = outer.module
    self.qualname = outer.qualname + '.<locals>.' + name
    self.name = name
    self.nested = {}

  def params(self):
    a = self.node.args
    return [x.arg for x in a.posonlyargs + a.args]

  @property
  def fq(self):
    return self.module.name + ':' + self.qualname


def nested(outer, name):
  v = NestedView(outer, name)
  return v if v.node is not None else None
