"""itertools.groupby merges only *adjacent* elements with equal keys.  A grouping by key K over a sequence that was sorted
by key K' is a partition by K exactly when elements with equal K are adjacent after the sort: for the attribute tuples handled
here that is the case when the leading |K| fields of K' are the fields of K (in any order).  Sorting by a coarser key -
(instrument, program) - and grouping by a finer one - (instrument, program, is_drum) - produces several groups with the same
key whenever the extra field alternates inside one run; a dictionary built from the groups keeps only the last of them.

Only positively resolved situations are judged (both key functions resolved to attribute tuples of their argument, the
grouped sequence resolved to a sorted(...) call); anything else produces no instance."""
import ast

from sa import astutil as U
from sa.loader import norm_text, dotted


def key_fields(node, scope):
  """Attribute names a key function returns, in order, or None.  scope: the outermost enclosing function node."""
  if node is None:
    return None
  if isinstance(node, ast.Lambda) and len(node.args.args) == 1:
    return _tuple_fields(node.body, node.args.args[0].arg)
  if isinstance(node, ast.Name):
    defs = [d for d in ast.walk(scope) if isinstance(d, ast.FunctionDef) and d.name == node.id]
    if len(defs) == 1 and len(defs[0].args.args) == 1:
      body = [s for s in defs[0].body if not (isinstance(s, ast.Expr) and isinstance(s.value, ast.Constant))]
      if len(body) == 1 and isinstance(body[0], ast.Return):
        return _tuple_fields(body[0].value, defs[0].args.args[0].arg)
  if isinstance(node, ast.Call) and (dotted(node.func) or '').split('.')[-1] == 'attrgetter' and all(isinstance(a, ast.Constant) and isinstance(a.value, str) for a in node.args):
    return [a.value for a in node.args]
  return None


def _tuple_fields(body, arg):
  elts = body.elts if isinstance(body, ast.Tuple) else [body]
  out = []
  for e in elts:
    if isinstance(e, ast.Attribute) and isinstance(e.value, ast.Name) and e.value.id == arg:
      out.append(e.attr)
    else:
      return None
  return out


def _kw(call, name, pos):
  for k in call.keywords:
    if k.arg == name:
      return k.value
  return call.args[pos] if len(call.args) > pos else None


def check(ctx, fi, rule):
  """One definite instance per itertools.groupby call in `fi` (nested functions included) whose keys resolve."""
  top = fi.node
  funcs = [top] + [d for d in ast.walk(top) if isinstance(d, (ast.FunctionDef, ast.Lambda)) and d is not top]
  seen = set()
  for f in funcs:
    if isinstance(f, ast.Lambda):
      continue
    for c in U.calls_in(f):
      if id(c) in seen or (dotted(c.func) or '').split('.')[-1] != 'groupby' or not c.args:
        continue
      seen.add(id(c))
      gk = key_fields(_kw(c, 'key', 1), top)
      src = U.expand_locals(f, c.args[0], at=c)
      if not (isinstance(src, ast.Call) and dotted(src.func) == 'sorted'):
        continue
      sk_node = _kw(src, 'key', 99)
      sk = key_fields(sk_node, top)
      if gk is None or (sk is None and sk_node is not None):
        continue
      if sk is None:
        continue      # sorted without a key: elements compared as a whole - not an attribute-tuple situation
      ok = set(sk[:len(set(gk))]) == set(gk)      # the leading sort fields are the group fields, in any order
      ctx.ob(rule, fi, c, ok, 'grouped by %s after sorting by %s: equal group keys are adjacent' % (gk, sk) if ok else
             'grouped by %s but sorted by %s: elements with the same group key are adjacent only if they agree on the sort key prefix; when %s alternates '
             'inside a run of equal %s the same key comes out as several groups (and a dictionary built from them keeps the last one only)' % (
                 tuple(gk), tuple(sk), [x for x in gk if x not in sk] or gk, tuple(sk)), construct='sort key refines group key', definite=True)
