"""§3.5 IFACE: interface conformance of concrete subclasses, and small helpers
to read simple piecewise functions (if/elif/return chains)."""
import ast

from . import astutil as U
from .loader import norm_text


def abstract_members(P, base):
  out = {}
  for c in reversed(P.mro(base)):
    for name, m in c.methods.items():
      if m.is_abstract:
        out[name] = m
      elif name in out and c is not base:
        pass
  return {n: m for n, m in base.methods.items() if m.is_abstract}


def signature(fi):
  a = fi.node.args
  pos = [x.arg for x in a.posonlyargs + a.args]
  if pos and pos[0] in ('self', 'cls'):
    pos = pos[1:]
  nd = len(a.defaults)
  required = pos[:len(pos) - nd] if nd else pos
  defaulted = pos[len(pos) - nd:] if nd else []
  return required, defaulted, a.vararg is not None, a.kwarg is not None


def compatible(base_m, sub_m):
  """sub_m can be called wherever base_m's signature is used."""
  if base_m.is_property != sub_m.is_property:
    return False, 'is a %s in the subclass but a %s in the interface' % ('property' if sub_m.is_property else 'method', 'property' if base_m.is_property else 'method')
  if base_m.is_property:
    return True, ''
  br, bd, _bv, _bk = signature(base_m)
  sr, sd, sv, sk = signature(sub_m)
  if len(sr) > len(br) and not sv:
    return False, 'requires %d positional arguments, the interface passes %d' % (len(sr), len(br))
  if len(sr) + len(sd) < len(br) and not sv:
    return False, 'accepts %d positional arguments, the interface passes %d' % (len(sr) + len(sd), len(br))
  for d in bd:
    if d not in sr + sd and not sk:
      return False, 'lacks the keyword parameter %s of the interface' % d
  return True, ''


def concrete_subclasses(P, base):
  out = []
  for c in P.subclasses(base):
    abstract = any(m.is_abstract for m in c.methods.values())
    if not abstract:
      out.append(c)
  return out


def check_interface(ctx, base, rule, members=None, skip=()):
  """Every concrete subclass of `base` defines (itself or via a non-abstract
  ancestor) each abstract member with a compatible shape."""
  P = ctx.P
  abst = members or abstract_members(P, base)
  subs = [c for c in concrete_subclasses(P, base) if c.fq not in skip]
  for c in subs:
    for name, bm in sorted(abst.items()):
      impl = None
      for k in P.mro(c):
        if name in k.methods and not k.methods[name].is_abstract:
          impl = k.methods[name]
          break
      if impl is None:
        ctx.ob(rule, c, c.node, False, '%s does not implement %s of %s (abc.ABCMeta via __metaclass__ enforces nothing on Python 3: the call returns None)' % (c.qualname, name, base.qualname),
               construct='%s implements %s.%s' % (c.qualname, base.qualname, name))
        continue
      ok, why = compatible(bm, impl)
      ctx.ob(rule, c, impl.node, ok, '%s.%s conforms to %s' % (c.qualname, name, base.qualname) if ok else '%s.%s %s' % (c.qualname, name, why),
             construct='%s implements %s.%s' % (c.qualname, base.qualname, name))
  return subs


def pieces(fn):
  """Return [(guards, expr, return_node)] for a function made of if/elif/else
  chains ending in returns.  guards = [(test, polarity)] along the path."""
  out = []

  def walk(stmts, guards):
    for st in stmts:
      if isinstance(st, ast.Return):
        out.append((list(guards), st.value, st))
        return True
      if isinstance(st, ast.If):
        t1 = walk(st.body, guards + [(st.test, True)])
        t2 = walk(st.orelse, guards + [(st.test, False)]) if st.orelse else False
        if t1 and t2:
          return True
        if t1:
          guards = guards + [(st.test, False)]
        elif t2:
          guards = guards + [(st.test, True)]
      elif isinstance(st, ast.Raise):
        return True
    return False
  walk(fn.body, [])
  return out
