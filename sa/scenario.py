"""Boundary scenarios: decide, without running anything, whether an element with a *stated relation to a boundary* (its pitch
equals max_pitch; its time equals split_times[0]; its pitch is max_pitch + 1 ...) reaches a statement.

The conditions that hold at the statement (astutil.path_conditions: enclosing tests, negated early exits; plus the filters of
a comprehension the enclosing loop iterates) are expanded through single-assignment locals and evaluated three-valued: a
comparison is brought to the normal form  e <op> 0  (sa.nf), the scenario's equalities are substituted, and if e becomes a
constant the comparison is decided; anything else is unknown.  A verdict is only drawn from a definite True / False."""
import ast

from sa import astutil as U, nf
from sa.loader import norm_text, dotted


# UPPER_CASE module-level names bound once to a literal container (dict / set / tuple / list), one value program-wide; set by the
# framework for every run, read by the membership test of tv
CONTAINERS = {}


def _cmp(left, op, right, subst, env):
  def numeric():
    a, b = fold_numeric(left, subst), fold_numeric(right, subst)
    fn = {ast.Lt: lambda x, y: x < y, ast.LtE: lambda x, y: x <= y, ast.Gt: lambda x, y: x > y, ast.GtE: lambda x, y: x >= y,
          ast.Eq: lambda x, y: x == y, ast.NotEq: lambda x, y: x != y}.get(type(op))
    if a is None or b is None or fn is None:
      return None
    return fn(a, b)
  try:
    c = nf.compare_nf(ast.Compare(left=left, ops=[op], comparators=[right]), dict(env or {}))
  except nf.NFError:
    c = None
  if c is None:
    return numeric()
  e, sym = c
  try:
    e = e.subst(subst)
  except Exception:
    return numeric()
  k = e.const_value()
  if k is None:
    return numeric()      # an atom the normal form keeps opaque (x % n, x // n, a call) may still fold once the values are in
  return {'<': k < 0, '<=': k <= 0, '==': k == 0, '!=': k != 0}[sym]


# Module-level functions that are one `return <expression>` over their parameters, literals, arithmetic / bit / boolean
# operators, comparisons and calls of other such functions (e.g. _is_power_of_2): published by the framework for every run.
# A call of one of them with constant arguments is folded by substituting the arguments into the returned expression.
PURE_FUNCS = {}


class _None(object):
  """The folded value of the literal None (the Python None means "not constant" in fold_numeric)."""

  def __bool__(self):
    return False

  def __repr__(self):
    return 'None'


NONE = _None()


def fold_numeric(expr, subst, _depth=0, dyadic=False):
  """Value of `expr` once every atom of `subst` with a constant value is replaced by it: only literals, module constants,
  + - * / // % ** & | ^ << >>, abs min max int float, comparisons, and / or / not (with Python's operand-returning semantics),
  conditional expressions, membership in literal containers and calls of PURE_FUNCS are evaluated - arithmetic on constants,
  the way a compiler folds them; nothing of the analysed program is imported or run.  None if not constant."""
  import operator
  from fractions import Fraction
  ops = {ast.Add: operator.add, ast.Sub: operator.sub, ast.Mult: operator.mul, ast.FloorDiv: operator.floordiv, ast.Mod: operator.mod,
         ast.Div: operator.truediv, ast.BitAnd: operator.and_, ast.BitOr: operator.or_, ast.BitXor: operator.xor,
         ast.LShift: operator.lshift, ast.RShift: operator.rshift, ast.Pow: operator.pow}
  cmps = {ast.Lt: operator.lt, ast.LtE: operator.le, ast.Gt: operator.gt, ast.GtE: operator.ge, ast.Eq: operator.eq, ast.NotEq: operator.ne}

  def ev(n, env, depth):
    t = norm_text(n) if isinstance(n, ast.expr) else None
    if isinstance(n, ast.Name) and n.id in env:
      return env[n.id]
    if t in subst and not env:
      k = subst[t].const_value() if hasattr(subst[t], 'const_value') else None
      if k is None:
        raise ValueError
      return k if k.denominator != 1 else int(k)
    if isinstance(n, ast.Constant) and isinstance(n.value, bool):
      return n.value
    if isinstance(n, ast.Constant) and n.value is None:
      return NONE
    c = U.const_value(n)
    if c is not None:
      return Fraction(str(c)) if isinstance(c, float) else c
    if isinstance(n, ast.BinOp) and type(n.op) in ops:
      a, b = ev(n.left, env, depth), ev(n.right, env, depth)
      if isinstance(n.op, (ast.FloorDiv, ast.Mod, ast.Div)) and b == 0:
        raise ValueError
      if isinstance(n.op, ast.Div):
        q = Fraction(a) / Fraction(b)
        if dyadic and q.denominator & (q.denominator - 1):
          raise ValueError      # not exactly representable in binary floating point: the rational value may differ from the computed one
        return q
      if isinstance(n.op, (ast.BitAnd, ast.BitOr, ast.BitXor, ast.LShift, ast.RShift)) and not (isinstance(a, int) and isinstance(b, int)):
        raise ValueError
      if isinstance(n.op, (ast.LShift, ast.Pow)) and (not isinstance(b, int) or b < 0 or b > 64):
        raise ValueError
      return ops[type(n.op)](a, b)
    if isinstance(n, ast.UnaryOp) and isinstance(n.op, (ast.USub, ast.UAdd)):
      v = ev(n.operand, env, depth)
      return -v if isinstance(n.op, ast.USub) else v
    if isinstance(n, ast.UnaryOp) and isinstance(n.op, ast.Not):
      return not ev(n.operand, env, depth)
    if isinstance(n, ast.BoolOp):
      v = None
      for x in n.values:
        v = ev(x, env, depth)
        if (isinstance(n.op, ast.And) and not v) or (isinstance(n.op, ast.Or) and v):
          return v
      return v
    if isinstance(n, ast.IfExp):
      return ev(n.body if ev(n.test, env, depth) else n.orelse, env, depth)
    if isinstance(n, ast.Compare):
      vals = [ev(n.left, env, depth)]
      for o, cpr in zip(n.ops, n.comparators):
        if isinstance(o, (ast.In, ast.NotIn)):
          box = None
          if isinstance(cpr, ast.Call) and dotted(cpr.func) == 'range' and 1 <= len(cpr.args) <= 3 and not cpr.keywords:
            rargs = [ev(a_, env, depth) for a_ in cpr.args]
            if not all(isinstance(a_, int) and not isinstance(a_, bool) for a_ in rargs) or (len(rargs) == 3 and rargs[2] == 0):
              raise ValueError
            box = range(*rargs)
            v_ = vals[-1]
            inside = (Fraction(v_).denominator == 1 and int(v_) in box) if not isinstance(v_, bool) and v_ is not NONE else False
            if inside != isinstance(o, ast.In):
              return False
            continue
          if isinstance(cpr, (ast.Tuple, ast.List, ast.Set, ast.Dict)):
            box = ast.literal_eval(cpr)
          elif isinstance(cpr, (ast.Name, ast.Attribute)):
            box = CONTAINERS.get(cpr.id if isinstance(cpr, ast.Name) else cpr.attr)
          if box is None:
            raise ValueError
          inside = any(vals[-1] == x for x in box)
          if inside != isinstance(o, ast.In):
            return False
          continue
        if isinstance(o, (ast.Is, ast.IsNot)):
          nxt = ev(cpr, env, depth)
          same = (vals[-1] is NONE) and (nxt is NONE)
          if not ((vals[-1] is NONE) or (nxt is NONE)):
            raise ValueError      # identity of two values that are not None is not folded
          if same != isinstance(o, ast.Is):
            return False
          vals.append(nxt)
          continue
        if type(o) not in cmps:
          raise ValueError
        nxt = ev(cpr, env, depth)
        if vals[-1] is NONE or nxt is NONE:
          raise ValueError
        if not cmps[type(o)](vals[-1], nxt):
          return False
        vals.append(nxt)
      return True
    if isinstance(n, ast.Call) and dotted(n.func) in ('abs', 'min', 'max', 'int', 'float', 'bool') and n.args and not n.keywords:
      vals = [ev(a, env, depth) for a in n.args]
      if dotted(n.func) in ('int', 'float', 'bool'):
        if len(vals) != 1:
          raise ValueError
        if dotted(n.func) == 'int' and Fraction(vals[0]).denominator != 1:
          if not dyadic:
            raise ValueError
          return int(Fraction(vals[0]))      # truncation toward zero, exact on an exactly representable value
        return bool(vals[0]) if dotted(n.func) == 'bool' else vals[0]
      return {'abs': lambda v: abs(v[0]), 'min': min, 'max': max}[dotted(n.func)](vals)
    if isinstance(n, ast.Call) and (dotted(n.func) or '').split('.')[-1] == 'Fraction' and 1 <= len(n.args) <= 2 and not n.keywords:
      parts = [ev(a_, env, depth) for a_ in n.args]
      if any(isinstance(p_, bool) or p_ is NONE for p_ in parts) or (len(parts) == 2 and parts[1] == 0):
        raise ValueError
      return Fraction(parts[0]) / Fraction(parts[1]) if len(parts) == 2 else Fraction(parts[0])
    if isinstance(n, ast.Call) and dyadic and len(n.args) == 1 and not n.keywords and \
        dotted(n.func) in ('math.ceil', 'math.floor', 'np.ceil', 'np.floor', 'numpy.ceil', 'numpy.floor'):
      import math
      v = Fraction(ev(n.args[0], env, depth))
      return math.ceil(v) if dotted(n.func).endswith('ceil') else math.floor(v)
    if isinstance(n, ast.Call) and not n.keywords and depth < 4:
      f = PURE_FUNCS.get((dotted(n.func) or '').split('.')[-1])
      if f is not None and len(f.args.args) == len(n.args):
        env2 = dict((a.arg, ev(x, env, depth)) for a, x in zip(f.args.args, n.args))
        ret = [st for st in f.body if isinstance(st, ast.Return)][0]
        return ev(ret.value, env2, depth + 1)
    raise ValueError
  try:
    return ev(expr, {}, _depth)
  except (ValueError, TypeError, ZeroDivisionError, SyntaxError, OverflowError):
    return None


def tv(test, subst, env=None):
  """True / False / None for `test` under the substitution {atom text: Rat}."""
  if isinstance(test, ast.UnaryOp) and isinstance(test.op, ast.Not):
    v = tv(test.operand, subst, env)
    return None if v is None else (not v)
  if isinstance(test, ast.BoolOp):
    vals = [tv(x, subst, env) for x in test.values]
    if isinstance(test.op, ast.And):
      return False if any(x is False for x in vals) else (True if all(x is True for x in vals) else None)
    return True if any(x is True for x in vals) else (False if all(x is False for x in vals) else None)
  if isinstance(test, ast.Compare) and len(test.ops) == 1 and isinstance(test.ops[0], (ast.In, ast.NotIn)):
    # membership of a number in a literal container (written out, or a module-level constant published in CONTAINERS)
    k = fold_numeric(test.left, subst)
    c = test.comparators[0]
    box = None
    if isinstance(c, (ast.Tuple, ast.List, ast.Set, ast.Dict)):
      try:
        box = ast.literal_eval(c)
      except (ValueError, SyntaxError):
        box = None
    elif isinstance(c, (ast.Name, ast.Attribute)):
      box = CONTAINERS.get(c.id if isinstance(c, ast.Name) else c.attr)
    if k is None or box is None:
      return None
    try:
      inside = any(k == x for x in box)
    except TypeError:
      return None
    return inside if isinstance(test.ops[0], ast.In) else not inside
  if isinstance(test, ast.Compare):
    ops = [test.left] + list(test.comparators)
    vals = [_cmp(a, o, b, subst, env) for a, o, b in zip(ops, test.ops, ops[1:])]
    return False if any(x is False for x in vals) else (True if all(x is True for x in vals) else None)
  if isinstance(test, ast.Constant) and isinstance(test.value, bool):
    return test.value
  if isinstance(test, (ast.BinOp, ast.Name, ast.Attribute, ast.Call, ast.UnaryOp)):
    k = fold_numeric(test, subst)       # the truth of a value
    return None if k is None else bool(k)
  return None


def tv_all(conds, subst, env=None):
  vals = []
  for t, pol in conds:
    v = tv(t, subst, env)
    vals.append(None if v is None else (v == pol))
  return False if any(x is False for x in vals) else (True if all(x is True for x in vals) else None)


def subst_of(pairs):
  """{atom text: Rat} from [(expr text, expr text)]."""
  return dict((a, nf.rat(U.E(b))) for a, b in pairs)


def reach_conditions(fn, st, stop_at=None):
  """Conditions known to hold when `st` runs, expanded through single-assignment locals, including the filters of the
  comprehension an enclosing loop iterates (renamed to the loop variable)."""
  conds = [(U.expand_locals(fn, t, at=st), p) for t, p in U.path_conditions(fn, st, stop_at=stop_at)]
  for lp in U.enclosing_loops(fn, st):
    if not (isinstance(lp, ast.For) and isinstance(lp.target, ast.Name)):
      continue
    src = lp.iter
    seen = 0
    while seen < 4:
      seen += 1
      if isinstance(src, ast.Call) and dotted(src.func) in ('sorted', 'list', 'tuple', 'reversed') and src.args:
        src = src.args[0]
      elif isinstance(src, ast.Name):
        x = U.expand_locals(fn, src, at=lp)
        if x is src or norm_text(x) == norm_text(src):
          break
        src = x
      else:
        break
    if isinstance(src, (ast.ListComp, ast.GeneratorExp)) and len(src.generators) == 1 and isinstance(src.generators[0].target, ast.Name) and \
       isinstance(src.elt, ast.Name) and src.elt.id == src.generators[0].target.id:
      old, new = src.generators[0].target.id, lp.target.id

      class Ren(ast.NodeTransformer):
        def visit_Name(self, node):
          return ast.copy_location(ast.Name(id=new, ctx=node.ctx), node) if node.id == old else node
      import copy
      for f in src.generators[0].ifs:
        conds.append((U.expand_locals(fn, Ren().visit(copy.deepcopy(f)), at=lp), True))
  # flatten conjunctions
  flat = []
  for t, p in conds:
    if isinstance(t, ast.BoolOp) and isinstance(t.op, ast.And) and p:
      flat.extend((v, True) for v in t.values)
    elif isinstance(t, ast.BoolOp) and isinstance(t.op, ast.Or) and not p:
      flat.extend((v, False) for v in t.values)
    else:
      flat.append((t, p))
  return flat
