"""§3.4 COV: schema coverage / write-frame helpers over the points-to write log."""
import ast

from . import astutil as U
from .loader import norm_text, dotted
from .pts import fmt_ref


def result_writes(res, include_param=False):
  """De-duplicated writes of an analysis result: list of Write."""
  seen = set()
  out = []
  for w in res.writes:
    k = (id(w.node), w.root, w.path, w.chain)
    if k in seen:
      continue
    seen.add(k)
    if w.root[0] == 'F' or include_param:
      out.append(w)
  return out


def by_path(writes):
  d = {}
  for w in writes:
    d.setdefault(w.path, []).append(w)
  return d


def time_paths(schema):
  """Every time-bearing path of a NoteSequence, from the schema."""
  paths = [('notes', '[]', 'start_time'), ('notes', '[]', 'end_time'), ('total_time',)]
  for f in schema.time_fields():
    paths.append((f, '[]', 'time'))
  return paths


def local_value(fn_node, name, at_stmt, depth=0):
  """The expression most recently assigned to local `name` before `at_stmt`
  (nearest preceding simple assignment by position; None if ambiguous)."""
  best = None
  for st in U.walk_stmts(fn_node):
    if st.lineno >= at_stmt.lineno and st is not at_stmt:
      continue
    if st is at_stmt:
      continue
    if isinstance(st, ast.Assign) and len(st.targets) == 1 and isinstance(st.targets[0], ast.Name) and st.targets[0].id == name:
      if best is None or st.lineno > best.lineno:
        best = st
  return best.value if best is not None else None


def resolve_value(fn_node, value, at_stmt, depth=2):
  """Inline local single assignments into `value` (Names only), bounded depth."""
  if value is None or depth == 0:
    return value
  if isinstance(value, ast.Name):
    v = local_value(fn_node, value.id, at_stmt)
    if v is not None:
      return resolve_value(fn_node, v, at_stmt, depth - 1)
  return value


def path_text(path):
  return ''.join('[]' if p == '[]' else '.' + p for p in path).lstrip('.')
