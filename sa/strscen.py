"""String scenarios: three-valued evaluation of tests and values over *string* atoms ("the degree type is 'subtract'"),
the counterpart of sa.scenario for text-driven code (parsers).  Only literals, literal containers bound once at module or
class level, ==, !=, in, not in, not, and / or, conditional expressions, + on strings and subscripts of literal dictionaries
are read; everything else is unknown (None).  Nothing of the analysed program runs: literals are read with ast.literal_eval."""
import ast

from sa.loader import norm_text

UNKNOWN = object()
# method -> largest number of (string) arguments folded
STR_METHODS = {'upper': 0, 'lower': 0, 'strip': 1, 'lstrip': 1, 'rstrip': 1, 'startswith': 1, 'endswith': 1, 'isdigit': 0, 'isalpha': 0, 'title': 0, 'capitalize': 0}


class Consts:
  """Literal containers reachable from a function: module-level NAME = <literal>, class-level NAME = <literal> (self.NAME / cls.NAME)."""

  def __init__(self, fi):
    self.mod = fi.module
    self.cls = fi.cls

  def lookup(self, e):
    node = None
    if isinstance(e, ast.Name):
      vals = self.mod.assigns.get(e.id, [])
      node = vals[0] if len(vals) == 1 else None
    elif isinstance(e, ast.Attribute) and isinstance(e.value, ast.Name) and e.value.id in ('self', 'cls') and self.cls is not None:
      found = [s.value for s in self.cls.node.body if isinstance(s, ast.Assign) and len(s.targets) == 1 and isinstance(s.targets[0], ast.Name) and s.targets[0].id == e.attr]
      node = found[0] if len(found) == 1 else None
    if node is None:
      return UNKNOWN
    try:
      return ast.literal_eval(node)
    except (ValueError, SyntaxError):
      return UNKNOWN


def val(e, env, consts=None):
  """Python value of `e` under env {expression text: constant}, or UNKNOWN."""
  t = norm_text(e)
  if t in env:
    return env[t]
  if isinstance(e, ast.Constant):
    return e.value
  if isinstance(e, (ast.Tuple, ast.List, ast.Set, ast.Dict)):
    try:
      return ast.literal_eval(e)
    except (ValueError, SyntaxError):
      return UNKNOWN
  if isinstance(e, ast.IfExp):
    c = tv(e.test, env, consts)
    if c is None:
      a, b = val(e.body, env, consts), val(e.orelse, env, consts)
      return a if (a is not UNKNOWN and a == b) else UNKNOWN
    return val(e.body if c else e.orelse, env, consts)
  if isinstance(e, ast.BinOp) and isinstance(e.op, ast.Add):
    a, b = val(e.left, env, consts), val(e.right, env, consts)
    if isinstance(a, str) and isinstance(b, str):
      return a + b
    return UNKNOWN
  if isinstance(e, ast.Subscript):
    base = val(e.value, env, consts)
    k = val(e.slice, env, consts)
    if isinstance(base, dict) and k is not UNKNOWN:
      try:
        return base[k] if k in base else UNKNOWN
      except TypeError:
        return UNKNOWN
    return UNKNOWN
  if isinstance(e, ast.Call) and isinstance(e.func, ast.Attribute) and e.func.attr == 'get' and e.args:
    base = val(e.func.value, env, consts)
    k = val(e.args[0], env, consts)
    if isinstance(base, dict) and k is not UNKNOWN:
      try:
        if k in base:
          return base[k]
        return val(e.args[1], env, consts) if len(e.args) > 1 else None
      except TypeError:
        return UNKNOWN
  if isinstance(e, ast.Call) and isinstance(e.func, ast.Attribute) and not e.keywords and e.func.attr in STR_METHODS:
    # a method of str without side effects on a known string, with known arguments: folded like a literal
    base = val(e.func.value, env, consts)
    args = [val(a, env, consts) for a in e.args]
    if isinstance(base, str) and all(isinstance(a, (str, tuple)) for a in args) and len(args) <= STR_METHODS[e.func.attr]:
      try:
        return getattr(base, e.func.attr)(*args)
      except (TypeError, ValueError):
        return UNKNOWN
    return UNKNOWN
  if consts is not None and isinstance(e, (ast.Name, ast.Attribute)):
    return consts.lookup(e)
  return UNKNOWN


def tv(test, env, consts=None):
  if isinstance(test, ast.UnaryOp) and isinstance(test.op, ast.Not):
    v = tv(test.operand, env, consts)
    return None if v is None else (not v)
  if isinstance(test, ast.BoolOp):
    vals = [tv(x, env, consts) for x in test.values]
    if isinstance(test.op, ast.And):
      return False if any(x is False for x in vals) else (True if all(x is True for x in vals) else None)
    return True if any(x is True for x in vals) else (False if all(x is False for x in vals) else None)
  if isinstance(test, ast.Compare) and len(test.ops) == 1:
    a, b = val(test.left, env, consts), val(test.comparators[0], env, consts)
    if a is UNKNOWN or b is UNKNOWN:
      return None
    op = test.ops[0]
    try:
      if isinstance(op, ast.Eq):
        return a == b
      if isinstance(op, ast.NotEq):
        return a != b
      if isinstance(op, ast.In):
        return a in b
      if isinstance(op, ast.NotIn):
        return a not in b
      if isinstance(op, ast.Is):
        return (a is None) == (b is None) if (a is None or b is None) else None
      if isinstance(op, ast.IsNot):
        return (a is None) != (b is None) if (a is None or b is None) else None
    except TypeError:
      return None
    return None
  v = val(test, env, consts)
  if v is UNKNOWN:
    return None
  return bool(v)


def tv_all(conds, env, consts=None):
  vals = []
  for t, pol in conds:
    v = tv(t, env, consts)
    vals.append(None if v is None else (v == pol))
  return False if any(x is False for x in vals) else (True if all(x is True for x in vals) else None)


def concat_parts(e):
  """The operands of a left-to-right chain of + ."""
  if isinstance(e, ast.BinOp) and isinstance(e.op, ast.Add):
    return concat_parts(e.left) + concat_parts(e.right)
  return [e]
