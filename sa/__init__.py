"""Static-analysis engine for the note-seq verification checks (see DESIGN.md §2-§3).

Nothing in this package imports, calls or executes code from /repo: the
repository is only ever read as text and parsed with `ast`.
"""
