"""Regex ASTs (re._parser) for folded pattern strings: finite languages of
groups, character classes.  Nothing is matched against input."""
import re
import re._parser as sre_parse
import re._constants as C

from .loader import AnalysisError


def parse(pattern, flags=0):
  try:
    return sre_parse.parse(pattern, flags)
  except Exception as e:
    raise AnalysisError('cannot parse regex %r: %s' % (pattern, e))


def find_group(sub, n):
  """The SubPattern of capturing group n."""
  for op, av in sub:
    if op is C.SUBPATTERN:
      g, _a, _d, p = av
      if g == n:
        return p
      r = find_group(p, n)
      if r is not None:
        return r
    elif op is C.BRANCH:
      for alt in av[1]:
        r = find_group(alt, n)
        if r is not None:
          return r
    elif op in (C.MAX_REPEAT, C.MIN_REPEAT):
      r = find_group(av[2], n)
      if r is not None:
        return r
    elif op in (C.ASSERT, C.ASSERT_NOT):
      r = find_group(av[1], n)
      if r is not None:
        return r
  return None


def charset(items, ignorecase=False):
  out = set()
  neg = False
  for op, av in items:
    if op is C.NEGATE:
      neg = True
    elif op is C.LITERAL:
      out.add(chr(av))
    elif op is C.RANGE:
      out |= set(chr(c) for c in range(av[0], av[1] + 1))
    else:
      return None
  if neg:
    return None
  if ignorecase:
    out |= set(c.lower() for c in out) | set(c.upper() for c in out)
  return out


def language(sub, ignorecase=False, limit=5000, finite_prefix=False):
  """Finite language of a SubPattern as a set of strings; None if it is not
  finite (or too large).  With finite_prefix=True an unbounded tail is cut off:
  the language of the longest finite prefix is returned."""
  cur = {''}
  for op, av in sub:
    nxt = None
    if op is C.LITERAL:
      ch = chr(av)
      alts = {ch.lower(), ch.upper()} if ignorecase else {ch}
      nxt = set(s + a for s in cur for a in alts)
    elif op is C.IN:
      cs = charset(av, ignorecase)
      if cs is not None:
        nxt = set(s + a for s in cur for a in cs)
    elif op is C.BRANCH:
      langs = [language(alt, ignorecase, limit, finite_prefix) for alt in av[1]]
      if all(l is not None for l in langs):
        u = set().union(*langs)
        nxt = set(s + a for s in cur for a in u)
    elif op is C.SUBPATTERN:
      l = language(av[3], ignorecase, limit, finite_prefix)
      if l is not None:
        nxt = set(s + a for s in cur for a in l)
    elif op in (C.MAX_REPEAT, C.MIN_REPEAT):
      lo, hi, p = av
      if hi is not C.MAXREPEAT and hi <= 4:
        l = language(p, ignorecase, limit, False)
        if l is not None:
          reps = set()
          for k in range(lo, hi + 1):
            part = {''}
            for _ in range(k):
              part = set(a + b for a in part for b in l)
            reps |= part
          nxt = set(s + a for s in cur for a in reps)
    elif op is C.AT:
      nxt = cur
    if nxt is None:
      return cur if finite_prefix else None
    if len(nxt) > limit:
      return None
    cur = nxt
  return cur


def n_groups(pattern, flags=0):
  return re.compile(pattern, flags).groups


ANYCHAR = '\x00any'


def first(seq, ignorecase=False):
  """(set of characters a match of the item sequence `seq` can begin with, can it match the empty string).  A class that is not a
  plain set of literals / ranges (a category, a negation) contributes ANYCHAR."""
  out = set()
  for op, av in seq:
    f, nullable = set(), False
    if op is C.LITERAL:
      f = {chr(av)}
    elif op is C.NOT_LITERAL or op is C.ANY:
      f = {ANYCHAR}
    elif op is C.IN:
      cs = charset(av, ignorecase)
      f = cs if cs is not None else {ANYCHAR}
    elif op is C.BRANCH:
      for alt in av[1]:
        fa, na = first(alt, ignorecase)
        f |= fa
        nullable = nullable or na
    elif op is C.SUBPATTERN:
      f, nullable = first(av[3], ignorecase)
    elif op in (C.MAX_REPEAT, C.MIN_REPEAT):
      f, n0 = first(av[2], ignorecase)
      nullable = n0 or av[0] == 0
    elif op in (C.AT, C.ASSERT, C.ASSERT_NOT):
      nullable = True
    elif op is C.GROUPREF:
      f, nullable = {ANYCHAR}, True
    else:
      f, nullable = {ANYCHAR}, True
    out |= f
    if not nullable:
      return out, False
  return out, True


def shadowed_alternatives(group_seq, follow_seq):
  """Ordered alternation: an alternative that can match the empty string always succeeds, so the alternatives after it are tried only
  when the *rest* of the pattern fails.  [(characters, branch)] for every alternation in `group_seq` where a later alternative
  begins with characters that the continuation (rest of the group, then `follow_seq`) can begin with too and no negative lookahead
  right after the alternation rules them out: such a character is left to the continuation instead of being taken here."""
  out = []
  for j, (op, av) in enumerate(group_seq):
    if op is not C.BRANCH:
      continue
    alts = av[1]
    for k, alt in enumerate(alts[:-1]):
      if not first(alt)[1]:
        continue
      later = set()
      for a2 in alts[k + 1:]:
        later |= first(a2)[0]
      rest = list(group_seq[j + 1:]) + list(follow_seq)
      barred = set()
      for op2, av2 in rest:
        if op2 is C.ASSERT_NOT and av2[0] == 1 and len(av2[1]) == 1 and av2[1][0][0] in (C.IN, C.LITERAL):
          it = av2[1][0]
          barred |= (charset(it[1]) or set()) if it[0] is C.IN else {chr(it[1])}
          continue
        break
      cont, _n = first(rest)
      clash = set(c for c in later if (c in cont or ANYCHAR in cont) and c not in barred)
      if clash:
        out.append((clash, av))
      break
  return out


def prefix_shadowed(seq, follow=()):
  """[(shorter, longer)] for ordered alternations in which an earlier alternative matches a proper prefix of what a later one matches,
  while everything after the alternation can match the empty string and the pattern is not anchored at its end: a match attempt
  (`re.match`, which need not consume the whole text) then succeeds with the shorter alternative and never tries the longer one -
  "13" is read as "1" and "3" is left over.  Only alternatives with small finite languages are compared."""
  out = []
  seq = list(seq)
  for j, (op, av) in enumerate(seq):
    rest = seq[j + 1:] + list(follow)
    if op is C.BRANCH:
      anchored = any(o is C.AT and a in (C.AT_END, C.AT_END_STRING) for o, a in rest)
      if not anchored and first(rest)[1]:
        langs = [language(alt, limit=200) for alt in av[1]]
        for k, la in enumerate(langs):
          for lb in langs[k + 1:]:
            if la is None or lb is None:
              continue
            hit = next(((a, b) for a in sorted(la) for b in sorted(lb) if a and len(a) < len(b) and b.startswith(a)), None)
            if hit:
              out.append(hit)
      for alt in av[1]:
        out.extend(prefix_shadowed(alt, rest))
    elif op is C.SUBPATTERN:
      out.extend(prefix_shadowed(av[3], rest))
    elif op in (C.MAX_REPEAT, C.MIN_REPEAT):
      out.extend(prefix_shadowed(av[2], rest))
  return out
