"""Regex ASTs (re._parser) for folded pattern strings: finite languages of
groups, character classes.  Nothing is matched against input."""
import re
import re._parser as sre_parse
import re._constants as C

from .loader import AnalysisError


def parse(pattern, flags=0):
  try:
    return sre_parse.parse(pattern, flags)
  except Exception as e:
    raise AnalysisError('cannot parse regex %r: %s' % (pattern, e))


def find_group(sub, n):
  """The SubPattern of capturing group n."""
  for op, av in sub:
    if op is C.SUBPATTERN:
      g, _a, _d, p = av
      if g == n:
        return p
      r = find_group(p, n)
      if r is not None:
        return r
    elif op is C.BRANCH:
      for alt in av[1]:
        r = find_group(alt, n)
        if r is not None:
          return r
    elif op in (C.MAX_REPEAT, C.MIN_REPEAT):
      r = find_group(av[2], n)
      if r is not None:
        return r
    elif op in (C.ASSERT, C.ASSERT_NOT):
      r = find_group(av[1], n)
      if r is not None:
        return r
  return None


def charset(items, ignorecase=False):
  out = set()
  neg = False
  for op, av in items:
    if op is C.NEGATE:
      neg = True
    elif op is C.LITERAL:
      out.add(chr(av))
    elif op is C.RANGE:
      out |= set(chr(c) for c in range(av[0], av[1] + 1))
    else:
      return None
  if neg:
    return None
  if ignorecase:
    out |= set(c.lower() for c in out) | set(c.upper() for c in out)
  return out


def language(sub, ignorecase=False, limit=5000, finite_prefix=False):
  """Finite language of a SubPattern as a set of strings; None if it is not
  finite (or too large).  With finite_prefix=True an unbounded tail is cut off:
  the language of the longest finite prefix is returned."""
  cur = {''}
  for op, av in sub:
    nxt = None
    if op is C.LITERAL:
      ch = chr(av)
      alts = {ch.lower(), ch.upper()} if ignorecase else {ch}
      nxt = set(s + a for s in cur for a in alts)
    elif op is C.IN:
      cs = charset(av, ignorecase)
      if cs is not None:
        nxt = set(s + a for s in cur for a in cs)
    elif op is C.BRANCH:
      langs = [language(alt, ignorecase, limit, finite_prefix) for alt in av[1]]
      if all(l is not None for l in langs):
        u = set().union(*langs)
        nxt = set(s + a for s in cur for a in u)
    elif op is C.SUBPATTERN:
      l = language(av[3], ignorecase, limit, finite_prefix)
      if l is not None:
        nxt = set(s + a for s in cur for a in l)
    elif op in (C.MAX_REPEAT, C.MIN_REPEAT):
      lo, hi, p = av
      if hi is not C.MAXREPEAT and hi <= 4:
        l = language(p, ignorecase, limit, False)
        if l is not None:
          reps = set()
          for k in range(lo, hi + 1):
            part = {''}
            for _ in range(k):
              part = set(a + b for a in part for b in l)
            reps |= part
          nxt = set(s + a for s in cur for a in reps)
    elif op is C.AT:
      nxt = cur
    if nxt is None:
      return cur if finite_prefix else None
    if len(nxt) > limit:
      return None
    cur = nxt
  return cur


def n_groups(pattern, flags=0):
  return re.compile(pattern, flags).groups
