"""Facts layer §2.1/§2.2/§2.5: parse the package, index modules / classes /
functions by qualified name, resolve imports and names, class hierarchy."""
import ast
import hashlib
import os

REPO = os.environ.get('VERIF_REPO', '/repo')
PKG = 'note_seq'


class AnalysisError(Exception):
  """The machinery cannot decide (anchor vanished, unknown idiom, floor)."""


class FuncInfo:
  __slots__ = ('module', 'qualname', 'node', 'cls', 'parent', 'nested', 'decorators')

  def __init__(self, module, qualname, node, cls=None, parent=None):
    self.module = module        # ModuleInfo
    self.qualname = qualname    # 'f', 'C.m', 'f.<locals>.g'
    self.node = node
    self.cls = cls              # ClassInfo or None
    self.parent = parent        # enclosing FuncInfo or None
    self.nested = {}            # name -> FuncInfo
    self.decorators = [decorator_name(d) for d in node.decorator_list]

  @property
  def name(self):
    return self.node.name

  @property
  def fq(self):
    return self.module.name + ':' + self.qualname

  @property
  def is_property(self):
    return any(d in ('property', 'abc.abstractproperty') or d.endswith('.setter') for d in self.decorators)

  @property
  def is_abstract(self):
    return any(d in ('abc.abstractmethod', 'abc.abstractproperty', 'abstractmethod') for d in self.decorators)

  @property
  def is_static(self):
    return 'staticmethod' in self.decorators

  @property
  def is_classmethod(self):
    return 'classmethod' in self.decorators

  def params(self):
    a = self.node.args
    return [x.arg for x in a.posonlyargs + a.args]

  def __repr__(self):
    return '<Func %s>' % self.fq


class ClassInfo:
  __slots__ = ('module', 'qualname', 'node', 'methods', 'attrs', 'bases_expr', 'bases', 'nested', 'outer')

  def __init__(self, module, qualname, node, outer=None):
    self.module = module
    self.qualname = qualname
    self.node = node
    self.methods = {}     # name -> FuncInfo (last definition wins, like Python)
    self.attrs = {}       # class-level simple assignments name -> value node
    self.bases_expr = node.bases
    self.bases = []       # resolved ClassInfo (repo classes only)
    self.nested = {}
    self.outer = outer

  @property
  def name(self):
    return self.node.name

  @property
  def fq(self):
    return self.module.name + ':' + self.qualname

  def __repr__(self):
    return '<Class %s>' % self.fq


class ModuleInfo:
  def __init__(self, name, path, source, rel=None):
    self.name = name
    self.path = path
    self.source = source
    self.tree = inline_new_temporaries(orient_comparisons(desugar_assignments(ast.parse(source, filename=path))), rel)
    self.imports = {}     # local name -> ('module', modname) | ('symbol', modname, sym)
    self.functions = {}   # top-level name -> FuncInfo
    self.classes = {}     # top-level name -> ClassInfo
    self.assigns = {}     # top-level name -> [value nodes] in order
    self.all_functions = {}  # qualname -> FuncInfo
    self.all_classes = {}    # qualname -> ClassInfo
    self.lines = source.splitlines()

  def __repr__(self):
    return '<Module %s>' % self.name


def decorator_name(d):
  if isinstance(d, ast.Call):
    d = d.func
  return dotted(d) or '?'


def dotted(node):
  """'a.b.c' for Name/Attribute chains, else None."""
  parts = []
  while isinstance(node, ast.Attribute):
    parts.append(node.attr)
    node = node.value
  if isinstance(node, ast.Name):
    parts.append(node.id)
    return '.'.join(reversed(parts))
  return None


class Program:
  """All non-test modules of the package, indexed."""

  def __init__(self, repo=None, include_tests=False, overlay=None):
    self.repo = repo or REPO
    self.overlay = overlay or {}   # relpath -> source text (self-test variants)
    self.modules = {}
    self.digest = None
    self._load(include_tests)
    self._link()

  # ------------------------------------------------------------------ load
  def _load(self, include_tests):
    root = os.path.join(self.repo, PKG)
    if not os.path.isdir(root):
      raise AnalysisError('package directory %s not found' % root)
    h = hashlib.sha256()
    files = []
    for dirpath, dirnames, filenames in os.walk(root):
      dirnames.sort()
      for fn in sorted(filenames):
        if not fn.endswith('.py'):
          continue
        if fn.endswith('_test.py') and not include_tests:
          continue
        if fn.endswith('_pb2.py'):
          continue
        files.append(os.path.join(dirpath, fn))
    for path in files:
      rel = os.path.relpath(path, self.repo)
      modname = rel[:-3].replace(os.sep, '.')
      if modname.endswith('.__init__'):
        modname = modname[:-len('.__init__')]
      if rel in self.overlay:
        src = self.overlay[rel]
      else:
        with open(path, encoding='utf-8') as f:
          src = f.read()
      h.update(rel.encode())
      h.update(src.encode())
      try:
        mi = ModuleInfo(modname, path, src, rel)
        mi.rel = rel
      except SyntaxError as e:
        raise AnalysisError('cannot parse %s: %s' % (rel, e))
      self.modules[modname] = mi
      self._index_module(mi)
    self.digest = h.hexdigest()

  def _index_module(self, mi):
    for node in mi.tree.body:
      self._index_stmt(mi, node, None, None, '')

  def _index_stmt(self, mi, node, cls, func, prefix):
    if isinstance(node, (ast.Import, ast.ImportFrom)) and cls is None and func is None:
      self._index_import(mi, node)
    elif isinstance(node, (ast.FunctionDef, ast.AsyncFunctionDef)):
      qn = prefix + node.name
      fi = FuncInfo(mi, qn, node, cls=cls, parent=func)
      mi.all_functions[qn] = fi
      if cls is not None and func is None:
        cls.methods[node.name] = fi
      elif func is not None:
        func.nested[node.name] = fi
      else:
        mi.functions[node.name] = fi
      self._index_body(mi, node.body, None, fi, qn + '.<locals>.')
    elif isinstance(node, ast.ClassDef):
      qn = prefix + node.name
      ci = ClassInfo(mi, qn, node, outer=cls)
      mi.all_classes[qn] = ci
      if cls is not None:
        cls.nested[node.name] = ci
      elif func is None:
        mi.classes[node.name] = ci
      for sub in node.body:
        if isinstance(sub, ast.Assign):
          for t in sub.targets:
            if isinstance(t, ast.Name):
              ci.attrs[t.id] = sub.value
        self._index_stmt(mi, sub, ci, None, qn + '.')
    elif isinstance(node, ast.Assign) and cls is None and func is None:
      for t in node.targets:
        if isinstance(t, ast.Name):
          mi.assigns.setdefault(t.id, []).append(node.value)
    elif isinstance(node, ast.AnnAssign) and cls is None and func is None:
      if isinstance(node.target, ast.Name) and node.value is not None:
        mi.assigns.setdefault(node.target.id, []).append(node.value)
    elif isinstance(node, (ast.If, ast.Try, ast.With, ast.For, ast.While)) and cls is None and func is None:
      for field in ('body', 'orelse', 'finalbody'):
        for sub in getattr(node, field, []) or []:
          self._index_stmt(mi, sub, cls, func, prefix)
      for h in getattr(node, 'handlers', []) or []:
        for sub in h.body:
          self._index_stmt(mi, sub, cls, func, prefix)

  def _index_body(self, mi, body, cls, func, prefix):
    """Index nested defs inside a function body (any depth of statements)."""
    for node in body:
      if isinstance(node, (ast.FunctionDef, ast.AsyncFunctionDef, ast.ClassDef)):
        self._index_stmt(mi, node, cls, func, prefix)
      else:
        for field in ('body', 'orelse', 'finalbody'):
          sub = getattr(node, field, None)
          if isinstance(sub, list):
            self._index_body(mi, sub, cls, func, prefix)
        for h in getattr(node, 'handlers', []) or []:
          self._index_body(mi, h.body, cls, func, prefix)

  def _index_import(self, mi, node):
    if isinstance(node, ast.Import):
      for a in node.names:
        if a.asname:
          mi.imports[a.asname] = ('module', a.name)
        else:
          top = a.name.split('.')[0]
          mi.imports[top] = ('module', top)
    else:
      mod = node.module or ''
      if node.level:
        base = mi.name.split('.')
        base = base[:len(base) - node.level] if not mi.path.endswith('__init__.py') else base[:len(base) - node.level + 1]
        mod = '.'.join(base + ([mod] if mod else []))
      for a in node.names:
        local = a.asname or a.name
        full = mod + '.' + a.name
        if full in self.modules or self._is_module_path(full):
          mi.imports[local] = ('module', full)
        else:
          mi.imports[local] = ('symbol', mod, a.name)

  def _is_module_path(self, full):
    p = os.path.join(self.repo, *full.split('.'))
    return os.path.isfile(p + '.py') or os.path.isdir(p)

  # ------------------------------------------------------------------ link
  def _link(self):
    for mi in self.modules.values():
      for ci in mi.all_classes.values():
        ci.bases = []
        for b in ci.bases_expr:
          r = self.resolve_expr(mi, b, cls=ci.outer)
          if isinstance(r, ClassInfo):
            ci.bases.append(r)

  # ------------------------------------------------------------- resolution
  def module(self, name):
    if name in self.modules:
      return self.modules[name]
    if PKG + '.' + name in self.modules:
      return self.modules[PKG + '.' + name]
    raise AnalysisError('module %s not found' % name)

  def func(self, fq):
    """'sequences_lib:quantize_note_sequence' or 'events_lib:SimpleEventSequence.append'."""
    mod, qn = fq.split(':')
    mi = self.module(mod)
    if qn in mi.all_functions:
      return mi.all_functions[qn]
    raise AnalysisError('anchor function %s not found' % fq)

  def cls(self, fq):
    mod, qn = fq.split(':')
    mi = self.module(mod)
    if qn in mi.all_classes:
      return mi.all_classes[qn]
    raise AnalysisError('anchor class %s not found' % fq)

  def resolve_name(self, mi, name, cls=None):
    """Resolve a bare name at module scope: FuncInfo | ClassInfo | ModuleInfo |
    ('ext', dotted) | ('const', ModuleInfo, name) | None."""
    if name in mi.functions:
      return mi.functions[name]
    if name in mi.classes:
      return mi.classes[name]
    if name in mi.assigns:
      return ('const', mi, name)
    if name in mi.imports:
      imp = mi.imports[name]
      if imp[0] == 'module':
        if imp[1] in self.modules:
          return self.modules[imp[1]]
        return ('ext', imp[1])
      _, mod, sym = imp
      if mod in self.modules:
        return self.resolve_name(self.modules[mod], sym)
      return ('ext', mod + '.' + sym)
    return None

  def resolve_expr(self, mi, node, cls=None):
    """Resolve Name / Attribute chains statically (no local variables)."""
    if isinstance(node, ast.Name):
      if cls is not None and node.id in cls.nested:
        return cls.nested[node.id]
      return self.resolve_name(mi, node.id)
    if isinstance(node, ast.Attribute):
      base = self.resolve_expr(mi, node.value, cls)
      return self.resolve_attr(base, node.attr)
    return None

  def resolve_attr(self, base, attr):
    if base is None:
      return None
    if isinstance(base, ModuleInfo):
      return self.resolve_name(base, attr)
    if isinstance(base, ClassInfo):
      if attr in base.nested:
        return base.nested[attr]
      m = self.lookup_method(base, attr)
      if m is not None:
        return m
      for c in self.mro(base):
        if attr in c.attrs:
          return ('classconst', c, attr)
      return None
    if isinstance(base, tuple) and base[0] == 'ext':
      return ('ext', base[1] + '.' + attr)
    return None

  # ------------------------------------------------------------- hierarchy
  def mro(self, ci):
    """Linearisation (C3 is overkill here: single inheritance + mixins; use
    DFS with de-duplication keeping last occurrence, which equals C3 on this
    code base's diamonds-free hierarchies)."""
    out = []

    def visit(c):
      out.append(c)
      for b in c.bases:
        visit(b)
    visit(ci)
    seen = set()
    res = []
    for c in reversed(out):
      if id(c) not in seen:
        seen.add(id(c))
        res.append(c)
    res.reverse()
    # ensure ci first
    res.remove(ci)
    return [ci] + res

  def lookup_method(self, ci, name):
    for c in self.mro(ci):
      if name in c.methods:
        return c.methods[name]
    return None

  def subclasses(self, ci, strict=True):
    out = []
    for mi in self.modules.values():
      for c in mi.all_classes.values():
        if c is ci and strict:
          continue
        if ci in self.mro(c):
          out.append(c)
    return out

  def all_classes(self):
    for mi in self.modules.values():
      for c in mi.all_classes.values():
        yield c

  def all_functions(self):
    for mi in self.modules.values():
      for f in mi.all_functions.values():
        yield f

  def counts(self):
    return {
        'modules': len(self.modules),
        'classes': sum(len(m.all_classes) for m in self.modules.values()),
        'functions': sum(len(m.all_functions) for m in self.modules.values()),
    }

  def check_floors(self, modules=28, classes=95, functions=480):
    c = self.counts()
    if c['modules'] < modules or c['classes'] < classes or c['functions'] < functions:
      raise AnalysisError('facts floor not met: %r' % (c,))
    return c


def _constant_like(n):
  if isinstance(n, ast.Constant):
    return True
  if isinstance(n, ast.UnaryOp) and isinstance(n.op, (ast.USub, ast.UAdd)):
    return _constant_like(n.operand)
  if isinstance(n, (ast.Tuple, ast.List, ast.Set)):
    return all(_constant_like(e) for e in n.elts)
  return False


_MIRROR = {ast.Gt: ast.Lt, ast.GtE: ast.LtE}


def desugar_assignments(tree):
  """Normalisation applied to every parsed module before any rule sees it: an assignment of a tuple display to a tuple of
  targets of the same length (`a, b = x, y`) becomes the sequence `a = x; b = y`, and a chained assignment `a = b = v` becomes
  `a = v; b = v` - whenever that is the same program: no later right-hand side reads an earlier target, and a repeated value
  contains no call / yield / await / walrus and reads none of the targets.  Everything else is left as written.  The engines
  (write logs, reaching definitions, invariants, role discovery) then see one store per statement, however the source groups
  them.  Positions of the new statements are those of the original."""
  def reads(expr, target_texts):
    return any(ast.unparse(x) in target_texts for x in ast.walk(expr) if isinstance(x, (ast.Name, ast.Attribute, ast.Subscript)))

  def pure(expr):
    return not any(isinstance(x, (ast.Call, ast.Yield, ast.YieldFrom, ast.Await, ast.NamedExpr)) for x in ast.walk(expr))

  def split(st):
    if not isinstance(st, ast.Assign):
      return None
    if len(st.targets) == 1 and isinstance(st.targets[0], (ast.Tuple, ast.List)) and isinstance(st.value, (ast.Tuple, ast.List)):
      ts, vs = st.targets[0].elts, st.value.elts
      if len(ts) == len(vs) and len(ts) >= 2 and not any(isinstance(x, ast.Starred) for x in ts + vs) and all(isinstance(t, (ast.Name, ast.Attribute, ast.Subscript)) for t in ts):
        texts = [ast.unparse(t) for t in ts]
        # sequential execution is the same iff no value reads a target stored before it, and the targets are distinct
        if len(set(texts)) == len(texts) and not any(reads(vs[j], set(texts[:j])) for j in range(1, len(vs))) and \
            not any(isinstance(t, ast.Subscript) and reads(t.slice, set(texts)) for t in ts):
          return [ast.copy_location(ast.Assign(targets=[t], value=v, type_comment=None), st) for t, v in zip(ts, vs)]
    # a, b = (x, y) if c else (u, v)   ->   if c: a = x; b = y   else: a = u; b = v     (c is evaluated once, before any store, either way)
    if len(st.targets) == 1 and isinstance(st.targets[0], (ast.Tuple, ast.List)) and isinstance(st.value, ast.IfExp) and \
        all(isinstance(arm, (ast.Tuple, ast.List)) and len(arm.elts) == len(st.targets[0].elts) for arm in (st.value.body, st.value.orelse)):
      import copy
      arms = []
      for arm in (st.value.body, st.value.orelse):
        one = split(ast.copy_location(ast.Assign(targets=[copy.deepcopy(st.targets[0])], value=arm, type_comment=None), st))
        if one is None:
          return None
        arms.append(one)
      return [ast.copy_location(ast.If(test=st.value.test, body=arms[0], orelse=arms[1]), st)]
    if len(st.targets) >= 2 and all(isinstance(t, (ast.Name, ast.Attribute, ast.Subscript)) for t in st.targets) and pure(st.value):
      texts = [ast.unparse(t) for t in st.targets]
      if len(set(texts)) == len(texts) and not reads(st.value, set(texts)) and not any(reads(t, set(texts) - {ast.unparse(t)}) for t in st.targets if isinstance(t, ast.Subscript)):
        import copy
        return [ast.copy_location(ast.Assign(targets=[t], value=copy.deepcopy(st.value), type_comment=None), st) for t in st.targets]
    return None
  for owner in ast.walk(tree):
    for field in ('body', 'orelse', 'finalbody'):
      blk = getattr(owner, field, None)
      if isinstance(blk, list) and blk and isinstance(blk[0], ast.stmt):
        new = []
        for st in blk:
          parts = split(st)
          new.extend(parts if parts else [st])
        setattr(owner, field, new)
    if isinstance(owner, ast.Try):
      for h in owner.handlers:
        new = []
        for st in h.body:
          parts = split(st)
          new.extend(parts if parts else [st])
        h.body = new
  return tree


def orient_comparisons(tree):
  """Normalisation applied to every parsed module before any rule sees it: a
  two-operand ordering comparison is written with < or <= (a > b becomes b < a),
  an (in)equality with exactly one literal operand has the literal on the
  right, and any other (in)equality has its operands in a fixed order (by shape
  with local names blanked, then by text).  The rules are written against this orientation, so they cannot depend
  on which way round the repository happens to spell a comparison.  Operands of
  the comparisons the rules look at are side-effect free, so this is the same
  test; positions (lineno) of the Compare node are kept."""
  for c in ast.walk(tree):
    if isinstance(c, ast.Compare) and len(c.ops) == 1:
      op = type(c.ops[0])
      if op in _MIRROR:
        c.left, c.comparators[0] = c.comparators[0], c.left
        c.ops[0] = _MIRROR[op]()
      elif op in (ast.Eq, ast.NotEq):
        l, r = c.left, c.comparators[0]
        if _constant_like(l) != _constant_like(r):
          swap = _constant_like(l)
        else:
          # neither (or both) literal: order by shape with local names blanked, then by text
          swap = (_shape(l), ast.unparse(l)) > (_shape(r), ast.unparse(r))
        if swap:
          c.left, c.comparators[0] = r, l
  return tree


def _shape(n):
  if isinstance(n, ast.Name):
    return '_'
  if isinstance(n, ast.Constant):
    return repr(n.value)
  if isinstance(n, ast.AST):
    parts = [type(n).__name__]
    for f, v in ast.iter_fields(n):
      if f == 'ctx':
        continue
      parts.append(_shape(v))
    return '(' + ' '.join(parts) + ')'
  if isinstance(n, list):
    return '[' + ' '.join(_shape(x) for x in n) + ']'
  return repr(n)


def _qualnames(tree):
  out = []

  def walk(node, prefix):
    for n in node.body:
      if isinstance(n, (ast.FunctionDef, ast.AsyncFunctionDef)):
        q = prefix + n.name
        out.append((q, n))
        walk(n, q + '.<locals>.')
      elif isinstance(n, ast.ClassDef):
        walk(n, prefix + n.name + '.')
      else:
        for field in ('body', 'orelse', 'finalbody'):
          v = getattr(n, field, None)
          if isinstance(v, list) and v and isinstance(v[0], ast.stmt):
            walk(_B(v), prefix)
  walk(tree, '')
  return out


class _B:
  def __init__(self, body):
    self.body = body


def inline_new_temporaries(tree, rel):
  """Normalisation applied to every parsed module: a local that the reference version of the function (the one the rules
  were confirmed on, reference/signatures.json) does not have, bound by `t = <value>` and read exactly once, in the
  immediately following plain statement of the same statement list, is folded into that statement.  Nothing can happen
  between the two statements, so this is the same computation: naming an intermediate value does not change what the rules see."""
  if os.environ.get('VERIF_NO_INLINE') or rel is None:
    return tree
  from . import reference
  ref = reference.load().get('locals', {})
  for q, fn in _qualnames(tree):
    known = ref.get(reference.key(rel, q))
    if known is None:
      continue
    known = set(known)
    fresh_names = set(n.id for n in ast.walk(fn) if isinstance(n, ast.Name)) - known
    if not fresh_names:
      continue
    refsig = reference.load().get('functions', {}).get(reference.key(rel, q))
    if refsig is None or reference.signature(fn) == refsig:
      continue        # same arrangement of statements: the new name is a renaming, not an extra statement
    # fold one new temporary at a time, and only while that brings the function closer to the reference arrangement
    for name in sorted(fresh_names):
      before = reference.distance(refsig, reference.signature(fn))
      if before == 0:
        break
      import copy
      saved = copy.deepcopy(fn.body)
      _inline_in(fn, {name})
      if reference.distance(refsig, reference.signature(fn)) >= before:
        fn.body = saved
  return tree


def _inline_in(fn, only):
  if True:
    changed = True
    while changed:
      changed = False
      counts = {}
      for n in ast.walk(fn):
        if isinstance(n, ast.Name):
          counts[n.id] = counts.get(n.id, 0) + 1
      params = set(a.arg for a in fn.args.posonlyargs + fn.args.args + fn.args.kwonlyargs)
      for owner in ast.walk(fn):
        for field in ('body', 'orelse', 'finalbody'):
          blk = getattr(owner, field, None)
          if not (isinstance(blk, list) and blk and isinstance(blk[0], ast.stmt)):
            continue
          for i in range(len(blk) - 1):
            a, b = blk[i], blk[i + 1]
            if not (isinstance(a, ast.Assign) and len(a.targets) == 1 and isinstance(a.targets[0], ast.Name)):
              continue
            t = a.targets[0].id
            if t not in only:
              continue
            if counts.get(t) != 2 or t in params or isinstance(b, (ast.FunctionDef, ast.AsyncFunctionDef, ast.ClassDef, ast.For, ast.While, ast.With, ast.Try)):
              continue
            # the single read must be in b's own expressions (not in a nested block) and must be evaluated unconditionally first enough:
            # restrict to plain statements and to the test of an if
            if isinstance(b, (ast.Assign, ast.AugAssign, ast.AnnAssign, ast.Return, ast.Expr)):
              hosts = [b]
            else:
              continue      # tests of if/while, raise, assert: left alone (a name there usually carries a role the rules read)
            reads = [n for h in hosts for n in ast.walk(h) if isinstance(n, ast.Name) and n.id == t and isinstance(n.ctx, ast.Load)]
            if len(reads) != 1:
              continue
            if any(isinstance(n, (ast.Lambda, ast.ListComp, ast.SetComp, ast.DictComp, ast.GeneratorExp)) and any(x is reads[0] for x in ast.walk(n)) for h in hosts for n in ast.walk(h)):
              continue      # would be evaluated later / repeatedly
            val = a.value

            class Sub(ast.NodeTransformer):
              def visit_Name(self, node):
                return val if node is reads[0] else node
            Sub().visit(b)
            del blk[i]
            changed = True
            break
          if changed:
            break
        if changed:
          break
  return fn


def norm_text(node):
  """Normalised statement/expression text: the key of a finding."""
  try:
    return ' '.join(ast.unparse(node).split())
  except Exception:  # pragma: no cover
    return ast.dump(node)


def short(node, n=110):
  t = norm_text(node)
  return t if len(t) <= n else t[:n - 3] + '...'


def loc(fi_or_mod, node):
  mod = fi_or_mod.module if isinstance(fi_or_mod, (FuncInfo, ClassInfo)) else fi_or_mod
  return '%s:%d' % (getattr(mod, 'rel', mod.path), getattr(node, 'lineno', 0))
