"""Reference statement signatures of the functions the shape rules were confirmed on.

A *shape rule* recognises one particular arrangement of statements.  When it
fails on a function whose arrangement of statements is (nearly) the one it was
confirmed on, the failure is about the part of the code the rule understands:
a violation.  When the function has been restructured (a helper extracted, a
loop turned into a comprehension, early returns, temporaries...), the failure
only says that the rule no longer recognises the code: the honest verdict is
"cannot decide" (exit 2), never a VIOLATION.

The signature of a function is the pre-order list of (depth, statement kind) of
its statements.  /verif/reference/signatures.json holds the signatures of
/repo at the commit the rules were last confirmed on; it is only ever used to
*downgrade* a failed shape rule to "cannot decide", never to raise an alarm."""
import ast
import difflib
import json
import os

VERIF = os.path.dirname(os.path.dirname(os.path.abspath(__file__)))
REF_FILE = os.path.join(VERIF, 'reference', 'signatures.json')
# statement-level edits (insertions + deletions + replacements) up to which a function counts as "the same arrangement"
MAX_LOCAL_EDITS = 0
MAX_LOCAL_FRACTION = 0.25


def _vkind(v):
  """Coarse kind of an expression: the outermost operator, for calls the last component of the callee's name."""
  if v is None:
    return '-'
  if isinstance(v, ast.Call):
    f = v.func
    return 'call:' + (f.attr if isinstance(f, ast.Attribute) else (f.id if isinstance(f, ast.Name) else '?'))
  # operators are deliberately not part of the kind: `<` against `<=`, `+` against `-` are changes *inside* an expression,
  # which the normal-form rules read and judge; the kind only separates a call from arithmetic from a comparison from a name
  if isinstance(v, ast.BinOp):
    return 'bin'
  if isinstance(v, ast.BoolOp):
    return 'bool'
  if isinstance(v, ast.UnaryOp):
    return _vkind(v.operand) if isinstance(v.op, (ast.USub, ast.UAdd)) else 'un:' + _vkind(v.operand)
  if isinstance(v, ast.Compare):
    return 'cmp'
  if isinstance(v, ast.Constant):
    return 'const'
  return type(v).__name__


def _tkind(t):
  return {'Name': 'n', 'Attribute': 'a', 'Subscript': 's', 'Tuple': 't', 'List': 't', 'Starred': '*'}.get(type(t).__name__, '?')


FINE = os.environ.get('VERIF_SIG', 'fine') != 'coarse'


def _kind(st):
  """Statement kind; in the fine signature also the kind of the targets and of the value / test (never a local's name, so
  renaming locals does not change it; comparison operators are those of the loader's canonical orientation)."""
  k = type(st).__name__
  if isinstance(st, ast.Expr):
    v = st.value
    if isinstance(v, ast.Constant):
      return None       # docstrings / bare constants do not count
    return 'Expr' + (':' + _vkind(v) if FINE else '')
  if not FINE:
    return k
  if isinstance(st, ast.Assign):
    return 'Assign:%s=%s' % (''.join(_tkind(t) for t in st.targets), _vkind(st.value))
  if isinstance(st, ast.AugAssign):
    return 'AugAssign:%s=%s' % (_tkind(st.target), _vkind(st.value))
  if isinstance(st, ast.AnnAssign):
    return 'Assign:%s=%s' % (_tkind(st.target), _vkind(st.value))
  if isinstance(st, (ast.If, ast.While)):
    return '%s:%s' % (k, _vkind(st.test))
  if isinstance(st, ast.For):
    return 'For:%s in %s' % (_tkind(st.target), _vkind(st.iter))
  if isinstance(st, ast.Return):
    return 'Return:' + _vkind(st.value)
  if isinstance(st, ast.Raise):
    return 'Raise:' + _vkind(st.exc)
  if isinstance(st, ast.Delete):
    return 'Delete:' + ''.join(_tkind(t) for t in st.targets)
  return k


def signature(node):
  """Pre-order list of 'depth:Kind' for the statements of a function / class / module body."""
  out = []

  def walk(stmts, depth):
    for st in stmts:
      k = _kind(st)
      if k is None:
        continue
      out.append('%d:%s' % (depth, k))
      if isinstance(st, (ast.FunctionDef, ast.AsyncFunctionDef, ast.ClassDef)) and depth > 0:
        walk(st.body, depth + 1)
        continue
      for field in ('body', 'orelse', 'finalbody'):
        v = getattr(st, field, None)
        if isinstance(v, list) and v and isinstance(v[0], ast.stmt):
          walk(v, depth + 1)
      for h in getattr(st, 'handlers', []) or []:
        out.append('%d:except' % (depth + 1))
        walk(h.body, depth + 2)
  walk(node.body, 1)
  return out


def distance(a, b):
  """Number of statement-level edits between two signatures."""
  if a == b:
    return 0
  sm = difflib.SequenceMatcher(a=a, b=b, autojunk=False)
  d = 0
  for tag, i1, i2, j1, j2 in sm.get_opcodes():
    if tag != 'equal':
      d += max(i2 - i1, j2 - j1)
  return d


_REF = None


def load():
  global _REF
  if _REF is None:
    try:
      with open(REF_FILE) as f:
        _REF = json.load(f)
    except (OSError, ValueError):
      _REF = {}
  return _REF


def key(module_rel, qualname):
  return '%s::%s' % (module_rel, qualname)


def restructured(module_rel, qualname, node):
  """(restructured?, edits, known?) for a function of the analysed tree."""
  ref = load().get('functions', {}).get(key(module_rel, qualname))
  if ref is None:
    return (True, None, False)      # a function the rules were never confirmed on (e.g. a newly extracted helper)
  d = distance(ref, signature(node))
  # a few edits are a restructuring of a small function: more than a quarter of its statements
  return (d > MAX_LOCAL_EDITS or (d >= 1 and d > MAX_LOCAL_FRACTION * max(len(ref), 1)), d, True)


def build(program):
  """Signatures of every function of the analysed program (used by tools/gen_reference.py)."""
  out = {}
  for mi in program.modules.values():
    for q, fi in mi.all_functions.items():
      out[key(mi.rel, q)] = signature(fi.node)
  return out


def build_locals(program):
  """The names occurring in every function (so that a *new* single-use temporary can be recognised and folded away)."""
  out = {}
  for mi in program.modules.values():
    for q, fi in mi.all_functions.items():
      out[key(mi.rel, q)] = sorted(set(n.id for n in ast.walk(fi.node) if isinstance(n, ast.Name)))
  return out
