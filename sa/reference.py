"""Reference statement signatures of the functions the shape rules were confirmed on.

A *shape rule* recognises one particular arrangement of statements.  When it
fails on a function whose arrangement of statements is (nearly) the one it was
confirmed on, the failure is about the part of the code the rule understands:
a violation.  When the function has been restructured (a helper extracted, a
loop turned into a comprehension, early returns, temporaries...), the failure
only says that the rule no longer recognises the code: the honest verdict is
"cannot decide" (exit 2), never a VIOLATION.

The signature of a function is the pre-order list of (depth, statement kind) of
its statements.  /verif/reference/signatures.json holds the signatures of
/repo at the commit the rules were last confirmed on; it is only ever used to
*downgrade* a failed shape rule to "cannot decide", never to raise an alarm."""
import ast
import difflib
import json
import os

VERIF = os.path.dirname(os.path.dirname(os.path.abspath(__file__)))
REF_FILE = os.path.join(VERIF, 'reference', 'signatures.json')
# statement-level edits (insertions + deletions + replacements) up to which a function counts as "the same arrangement"
MAX_LOCAL_EDITS = 0
MAX_LOCAL_FRACTION = 0.25


def _kind(st):
  k = type(st).__name__
  if isinstance(st, ast.Expr):
    v = st.value
    if isinstance(v, ast.Constant):
      return None       # docstrings / bare constants do not count
    return 'Expr'
  return k


def signature(node):
  """Pre-order list of 'depth:Kind' for the statements of a function / class / module body."""
  out = []

  def walk(stmts, depth):
    for st in stmts:
      k = _kind(st)
      if k is None:
        continue
      out.append('%d:%s' % (depth, k))
      if isinstance(st, (ast.FunctionDef, ast.AsyncFunctionDef, ast.ClassDef)) and depth > 0:
        walk(st.body, depth + 1)
        continue
      for field in ('body', 'orelse', 'finalbody'):
        v = getattr(st, field, None)
        if isinstance(v, list) and v and isinstance(v[0], ast.stmt):
          walk(v, depth + 1)
      for h in getattr(st, 'handlers', []) or []:
        out.append('%d:except' % (depth + 1))
        walk(h.body, depth + 2)
  walk(node.body, 1)
  return out


def distance(a, b):
  """Number of statement-level edits between two signatures."""
  if a == b:
    return 0
  sm = difflib.SequenceMatcher(a=a, b=b, autojunk=False)
  d = 0
  for tag, i1, i2, j1, j2 in sm.get_opcodes():
    if tag != 'equal':
      d += max(i2 - i1, j2 - j1)
  return d


_REF = None


def load():
  global _REF
  if _REF is None:
    try:
      with open(REF_FILE) as f:
        _REF = json.load(f)
    except (OSError, ValueError):
      _REF = {}
  return _REF


def key(module_rel, qualname):
  return '%s::%s' % (module_rel, qualname)


def restructured(module_rel, qualname, node):
  """(restructured?, edits, known?) for a function of the analysed tree."""
  ref = load().get('functions', {}).get(key(module_rel, qualname))
  if ref is None:
    return (True, None, False)      # a function the rules were never confirmed on (e.g. a newly extracted helper)
  d = distance(ref, signature(node))
  # a few edits are a restructuring of a small function: more than a quarter of its statements
  return (d > MAX_LOCAL_EDITS or (d >= 1 and d > MAX_LOCAL_FRACTION * max(len(ref), 1)), d, True)


def build(program):
  """Signatures of every function of the analysed program (used by tools/gen_reference.py)."""
  out = {}
  for mi in program.modules.values():
    for q, fi in mi.all_functions.items():
      out[key(mi.rel, q)] = signature(fi.node)
  return out


def build_locals(program):
  """The names occurring in every function (so that a *new* single-use temporary can be recognised and folded away)."""
  out = {}
  for mi in program.modules.values():
    for q, fi in mi.all_functions.items():
      out[key(mi.rel, q)] = sorted(set(n.id for n in ast.walk(fi.node) if isinstance(n, ast.Name)))
  return out
