"""Element-tag typing of the MusicXML reader.

Abstract value of an expression: the set of XML tags the element it denotes can
have (Tags), "a child of an element with tags T" (Child), a string constant
(Str), or unknown (None).  The interpretation is inter-procedural and context
sensitive (a callee is analysed once per distinct binding of its parameters),
flow-insensitive for object fields (self.xml_x), and refines a loop variable
under `if child.tag == '<c>'`.  Every navigation site becomes an obligation
(parent tags, child tag) or (tags, attribute) that is looked up in the schema
table; nothing of the repository is executed."""
import ast

from . import astutil as U
from .loader import AnalysisError, dotted, norm_text


class Tags(frozenset):
  pass


class Child:
  __slots__ = ('of',)

  def __init__(self, of):
    self.of = of

  def __eq__(self, o):
    return isinstance(o, Child) and o.of == self.of

  def __hash__(self):
    return hash(('child', self.of))

  def __repr__(self):
    return 'Child(%s)' % sorted(self.of)


class Str(str):
  pass


class ElemList:
  """A list of elements; .tags is the abstract value of one item (Tags for findall(), Child for list(element))."""
  __slots__ = ('tags',)

  def __init__(self, tags):
    self.tags = tags

  def __eq__(self, o):
    return isinstance(o, ElemList) and o.tags == self.tags

  def __hash__(self):
    return hash(('list', self.tags))

  def __repr__(self):
    return 'ElemList(%s)' % sorted(self.tags)


class Enumerated:
  __slots__ = ('elem',)

  def __init__(self, elem):
    self.elem = elem


def iter_elem(v):
  """Abstract value of one item when iterating v."""
  if isinstance(v, ElemList):
    return v.tags
  if isinstance(v, Tags):
    return Child(v)
  return None


class Site:
  __slots__ = ('kind', 'parents', 'name', 'node', 'func', 'chain')

  def __init__(self, kind, parents, name, node, func, chain):
    self.kind, self.parents, self.name, self.node, self.func, self.chain = kind, parents, name, node, func, chain


class TagAnalysis:
  def __init__(self, program, module, seeds):
    """seeds: {(class qualname, field): Tags} for fields the analysis cannot derive (the document root)."""
    self.P = program
    self.mi = module
    self.fields = dict(seeds)
    self.sites = {}         # (id(node), parents, name) -> Site
    self.unknown = {}       # id(node) -> (node, func) navigation on a receiver of unknown tag
    self.memo = set()
    self.changed = False

  # ---------------------------------------------------------------- driver
  def run(self, entries):
    for _ in range(8):
      self.changed = False
      self.memo = set()
      self.sites = {}
      self.unknown = {}
      for (fi, env) in entries:
        self.func(fi, dict(env), ())
      if not self.changed:
        return
    raise AnalysisError('element-tag analysis did not reach a fixpoint')

  def func(self, fi, env, chain):
    key = (fi.fq, tuple(sorted(((k, v) for k, v in env.items() if v is not None and not isinstance(v, Enumerated)), key=repr)))
    if key in self.memo or len(chain) > 12:
      return
    self.memo.add(key)
    cls = self._class_of(fi)
    self.block(fi.node.body, env, fi, cls, chain + (fi.qualname,))

  def _class_of(self, fi):
    q = fi.qualname.rsplit('.', 1)
    return self.mi.all_classes.get(q[0]) if len(q) == 2 else None

  # ---------------------------------------------------------------- statements
  def block(self, stmts, env, fi, cls, chain):
    for st in stmts:
      self.stmt(st, env, fi, cls, chain)

  def stmt(self, st, env, fi, cls, chain):
    if isinstance(st, (ast.FunctionDef, ast.AsyncFunctionDef, ast.ClassDef)):
      return
    if isinstance(st, ast.Assign):
      v = self.expr(st.value, env, fi, cls, chain)
      for t in st.targets:
        self.bind(t, v, env, fi, cls)
      return
    if isinstance(st, ast.For):
      it = self.expr(st.iter, env, fi, cls, chain)
      self.bind_loop(st.target, st.iter, it, env)
      self.block(st.body, env, fi, cls, chain)
      self.block(st.orelse, env, fi, cls, chain)
      return
    if isinstance(st, ast.If):
      self.expr(st.test, env, fi, cls, chain)
      benv = dict(env)
      for (name, tag) in self.refinements(st.test, env, fi, chain):
        benv[name] = Tags([tag])
      self.block(st.body, benv, fi, cls, chain)
      self.block(st.orelse, dict(env), fi, cls, chain)
      # names first bound inside a branch stay visible afterwards (flow-insensitive join)
      for k, v in benv.items():
        if k not in env:
          env[k] = v
      return
    # generic: evaluate every expression field, then nested blocks
    for field, val in ast.iter_fields(st):
      if isinstance(val, ast.expr):
        self.expr(val, env, fi, cls, chain)
      elif isinstance(val, list):
        for x in val:
          if isinstance(x, ast.expr):
            self.expr(x, env, fi, cls, chain)
          elif isinstance(x, ast.withitem):
            self.expr(x.context_expr, env, fi, cls, chain)
    for field in ('body', 'orelse', 'finalbody'):
      v = getattr(st, field, None)
      if isinstance(v, list) and v and isinstance(v[0], ast.stmt):
        self.block(v, env, fi, cls, chain)
    for h in getattr(st, 'handlers', []) or []:
      self.block(h.body, env, fi, cls, chain)

  def bind(self, target, v, env, fi, cls):
    if isinstance(target, ast.Name):
      env[target.id] = v
    elif isinstance(target, ast.Attribute) and isinstance(target.value, ast.Name) and cls is not None and fi.params()[:1] == [target.value.id]:
      if isinstance(v, Tags):
        k = (cls.qualname, target.attr)
        old = self.fields.get(k, Tags())
        new = Tags(old | v)
        if new != old:
          self.fields[k] = new
          self.changed = True

  def bind_loop(self, target, iter_node, it, env):
    if isinstance(it, Enumerated):
      if isinstance(target, ast.Tuple) and len(target.elts) == 2 and isinstance(target.elts[1], ast.Name):
        env[target.elts[1].id] = it.elem
      return
    if isinstance(target, ast.Name):
      env[target.id] = iter_elem(it)

  # ---------------------------------------------------------------- refinement
  def refinements(self, test, env, fi, chain):
    out = []
    conj = test.values if isinstance(test, ast.BoolOp) and isinstance(test.op, ast.And) else [test]
    for c in conj:
      sd = U.eq_sides(c, lambda a: isinstance(a, ast.Attribute) and a.attr == 'tag' and isinstance(a.value, ast.Name),
                      lambda b: isinstance(b, ast.Constant) and isinstance(b.value, str))
      if sd:
        name = sd[0].value.id
        v = env.get(name)
        if isinstance(v, Child):
          self.site('child', v.of, sd[1].value, c, fi, chain)
          out.append((name, sd[1].value))
        elif isinstance(v, Tags):
          out.append((name, sd[1].value))
        else:
          self.unknown[id(c)] = (c, fi)
          out.append((name, sd[1].value))
    return out

  # ---------------------------------------------------------------- expressions
  def expr(self, node, env, fi, cls, chain):
    if node is None:
      return None
    if isinstance(node, ast.Constant):
      return Str(node.value) if isinstance(node.value, str) else None
    if isinstance(node, ast.Name):
      return env.get(node.id)
    if isinstance(node, ast.Attribute):
      if isinstance(node.value, ast.Name) and cls is not None and fi.params()[:1] == [node.value.id]:
        for c in self.P.mro(cls):
          k = (c.qualname, node.attr)
          if k in self.fields:
            return self.fields[k]
        return None
      self.expr(node.value, env, fi, cls, chain)
      return None
    if isinstance(node, ast.Subscript):
      base = self.expr(node.value, env, fi, cls, chain)
      self.expr(node.slice, env, fi, cls, chain)
      # X.attrib['a']
      if isinstance(node.value, ast.Attribute) and node.value.attr == 'attrib':
        recv = self.expr(node.value.value, env, fi, cls, chain)
        a = self.expr(node.slice, env, fi, cls, chain)
        self.attr_site(recv, a, node, fi, chain)
      return base.tags if isinstance(base, ElemList) and not isinstance(node.slice, ast.Slice) else (base if isinstance(base, ElemList) else None)
    if isinstance(node, ast.Compare):
      vals = [self.expr(x, env, fi, cls, chain) for x in [node.left] + node.comparators]
      # 'a' in X.attrib
      if len(node.ops) == 1 and isinstance(node.ops[0], (ast.In, ast.NotIn)) and isinstance(node.comparators[0], ast.Attribute) and node.comparators[0].attr == 'attrib':
        recv = self.expr(node.comparators[0].value, env, fi, cls, chain)
        self.attr_site(recv, vals[0], node, fi, chain)
      return None
    if isinstance(node, ast.Call):
      return self.call(node, env, fi, cls, chain)
    if isinstance(node, (ast.ListComp, ast.SetComp, ast.GeneratorExp, ast.DictComp)):
      env2 = dict(env)
      for g in node.generators:
        it = self.expr(g.iter, env2, fi, cls, chain)
        self.bind_loop(g.target, g.iter, it, env2)
        for c in g.ifs:
          self.expr(c, env2, fi, cls, chain)
      if isinstance(node, ast.DictComp):
        self.expr(node.key, env2, fi, cls, chain)
        self.expr(node.value, env2, fi, cls, chain)
      else:
        self.expr(node.elt, env2, fi, cls, chain)
      return None
    if isinstance(node, ast.IfExp):
      self.expr(node.test, env, fi, cls, chain)
      a = self.expr(node.body, env, fi, cls, chain)
      b = self.expr(node.orelse, env, fi, cls, chain)
      return a if a == b else None
    for ch in ast.iter_child_nodes(node):
      if isinstance(ch, ast.expr):
        self.expr(ch, env, fi, cls, chain)
    return None

  def call(self, node, env, fi, cls, chain):
    f = node.func
    argv = [self.expr(a, env, fi, cls, chain) for a in node.args]
    kwv = {k.arg: self.expr(k.value, env, fi, cls, chain) for k in node.keywords if k.arg}
    if isinstance(f, ast.Attribute) and f.attr in ('find', 'findall', 'findtext', 'iter', 'iterfind') and len(node.args) >= 1:
      recv = self.expr(f.value, env, fi, cls, chain)
      path = argv[0]
      if not isinstance(path, Str):
        if isinstance(recv, (Tags, Child)):
          self.unknown[id(node)] = (node, fi)
        return None
      steps = [s for s in path.split('/') if s not in ('', '.')]
      cur = recv
      for s in steps:
        if isinstance(cur, Tags):
          self.site('child', cur, s, node, fi, chain)
        elif cur is None and s is steps[0]:
          self.unknown[id(node)] = (node, fi)
        cur = Tags([s])
      return ElemList(cur) if f.attr in ('findall', 'iter', 'iterfind') and isinstance(cur, Tags) else (None if f.attr == 'findtext' else cur)
    if isinstance(f, ast.Attribute) and f.attr == 'get' and len(node.args) >= 1:
      recv = self.expr(f.value, env, fi, cls, chain)
      if isinstance(recv, (Tags, Child)):
        self.attr_site(recv, argv[0], node, fi, chain)
      return None
    if isinstance(f, ast.Name) and f.id == 'enumerate' and node.args:
      return Enumerated(iter_elem(argv[0]))
    if isinstance(f, ast.Name) and f.id in ('getattr', 'len', 'list', 'sorted', 'reversed', 'str', 'int', 'float'):
      if f.id in ('list', 'sorted', 'reversed') and argv:
        return argv[0] if isinstance(argv[0], ElemList) else (ElemList(Child(argv[0])) if isinstance(argv[0], Tags) else None)
      return None
    # repository callees: self.method(...), Class(...), function(...)
    callee = None
    bound = 0
    if isinstance(f, ast.Attribute) and isinstance(f.value, ast.Name) and cls is not None and fi.params()[:1] == [f.value.id]:
      callee = self.P.lookup_method(cls, f.attr)
      bound = 1
    elif isinstance(f, ast.Name):
      if f.id in self.mi.classes:
        callee = self.P.lookup_method(self.mi.classes[f.id], '__init__')
        bound = 1
      elif f.id in self.mi.functions:
        callee = self.mi.functions[f.id]
    elif isinstance(f, ast.Attribute):
      self.expr(f.value, env, fi, cls, chain)
    if callee is not None and callee.module is self.mi:
      ps = callee.params()[bound:]
      cenv = {}
      for p, v in zip(ps, argv):
        cenv[p] = v
      for k, v in kwv.items():
        if k in ps:
          cenv[k] = v
      # defaults that are string constants
      a = callee.node.args
      allp = a.posonlyargs + a.args
      for p, d in zip(allp[len(allp) - len(a.defaults):], a.defaults):
        if p.arg not in cenv and isinstance(d, ast.Constant) and isinstance(d.value, str):
          cenv[p.arg] = Str(d.value)
      if any(isinstance(v, (Tags, Child, ElemList)) for v in cenv.values()) or callee.name in ('_parse', '__init__'):
        self.func(callee, cenv, chain)
        # a constructor stores elements in fields and usually calls self._parse(): follow it with the fields now known
    return None

  # ---------------------------------------------------------------- sites
  def site(self, kind, parents, name, node, fi, chain):
    k = (id(node), parents, name, kind)
    if k not in self.sites:
      self.sites[k] = Site(kind, parents, name, node, fi, chain)

  def attr_site(self, recv, a, node, fi, chain):
    if isinstance(recv, Tags) and isinstance(a, Str):
      self.site('attr', recv, str(a), node, fi, chain)
    elif isinstance(recv, (Tags, Child)) or isinstance(a, Str) and recv is None:
      self.unknown[id(node)] = (node, fi)
