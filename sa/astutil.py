"""Small syntactic helpers shared by the rule modules (parents, enclosing
loops/tests, store targets, comparison normal form)."""
import ast

from .loader import norm_text, dotted

_parent_cache = {}


def parents(root):
  pm = _parent_cache.get(id(root))
  if pm is None or pm[0] is not root:
    m = {}
    for n in ast.walk(root):
      for c in ast.iter_child_nodes(n):
        m[id(c)] = n
    pm = (root, m)
    _parent_cache[id(root)] = pm
  return pm[1]


def parent(root, node):
  return parents(root).get(id(node))


def ancestors(root, node):
  pm = parents(root)
  out = []
  cur = pm.get(id(node))
  while cur is not None:
    out.append(cur)
    cur = pm.get(id(cur))
  return out


def walk_stmts(fnode, into_nested=True):
  """All statements under a function node (pre-order)."""
  stack = list(reversed(fnode.body))
  while stack:
    st = stack.pop()
    yield st
    if isinstance(st, (ast.FunctionDef, ast.AsyncFunctionDef, ast.ClassDef)) and not into_nested:
      continue
    subs = []
    for field in ('body', 'orelse', 'finalbody'):
      v = getattr(st, field, None)
      if isinstance(v, list):
        subs.extend(v)
    for h in getattr(st, 'handlers', []) or []:
      subs.extend(h.body)
    stack.extend(reversed(subs))


def store_targets(st):
  """(target, value, op) for every store performed by statement st."""
  if isinstance(st, ast.Assign):
    for t in st.targets:
      if isinstance(t, (ast.Tuple, ast.List)):
        for e in t.elts:
          yield (e, None, 'store')
      else:
        yield (t, st.value, 'store')
  elif isinstance(st, ast.AugAssign):
    yield (st.target, st.value, 'aug:' + type(st.op).__name__)
  elif isinstance(st, ast.AnnAssign) and st.value is not None:
    yield (st.target, st.value, 'store')


def enclosing_loops(root, node):
  return tuple(a for a in reversed(ancestors(root, node)) if isinstance(a, (ast.For, ast.While)))


def enclosing_tests(root, node, stop_at=None):
  """[(test, polarity)] of the If/While statements whose body/orelse contains
  node, innermost first; stops at loop `stop_at` if given."""
  out = []
  pm = parents(root)
  child = node
  cur = pm.get(id(node))
  while cur is not None:
    if stop_at is not None and cur is stop_at:
      break
    if isinstance(cur, ast.If):
      if any(child is s for s in cur.body):
        out.append((cur.test, True))
      elif any(child is s for s in cur.orelse):
        out.append((cur.test, False))
    elif isinstance(cur, ast.IfExp):
      if child is cur.body:
        out.append((cur.test, True))
      elif child is cur.orelse:
        out.append((cur.test, False))
    child = cur
    cur = pm.get(id(cur))
  return out


def exclusive(root, a, b):
  """True when a and b lie in different arms of one If statement (they can never both run in one pass over that statement)."""
  ta = {id(t): pol for (t, pol) in enclosing_tests(root, a)}
  for (t, pol) in enclosing_tests(root, b):
    if id(t) in ta and ta[id(t)] != pol:
      return True
  return False


def same_block(root, a, b):
  pa = parent(root, a)
  pb = parent(root, b)
  if pa is None or pa is not pb:
    return False
  for field in ('body', 'orelse', 'finalbody'):
    v = getattr(pa, field, None)
    if isinstance(v, list) and any(x is a for x in v) and any(x is b for x in v):
      return True
  return False


def call_name(call):
  return dotted(call.func) if isinstance(call, ast.Call) else None


def calls_in(node, name=None):
  for n in ast.walk(node):
    if isinstance(n, ast.Call):
      if name is None or call_name(n) == name or (isinstance(n.func, ast.Attribute) and n.func.attr == name):
        yield n


_FLIP = {ast.Gt: '<', ast.GtE: '<=', ast.Lt: '<', ast.LtE: '<=', ast.Eq: '==', ast.NotEq: '!=',
         ast.Is: 'is', ast.IsNot: 'is not', ast.In: 'in', ast.NotIn: 'not in'}
_NEG = {'<': '>=', '<=': '>', '==': '!=', '!=': '==', 'is': 'is not', 'is not': 'is', 'in': 'not in', 'not in': 'in',
        '>': '<=', '>=': '<'}


def compare_nf(test, polarity=True):
  """Normalise a two-operand comparison to (lhs, op, rhs) with op in
  {'<','<=','==','!=', ...}: `a > b` becomes (b, '<', a); `not a < b` becomes
  (b, '<=', a).  Attribute chains are reduced to their last attribute name when
  the base is a plain name (note.end_time -> end_time) for role matching only.
  Returns None for anything else."""
  neg = not polarity
  while isinstance(test, ast.UnaryOp) and isinstance(test.op, ast.Not):
    neg = not neg
    test = test.operand
  if not isinstance(test, ast.Compare) or len(test.ops) != 1:
    return None
  l, r = test.left, test.comparators[0]
  op = type(test.ops[0])
  sym = _FLIP.get(op)
  if sym is None:
    return None
  if op in (ast.Gt, ast.GtE):
    l, r = r, l
  if neg:
    # not (l < r)  ==  r <= l
    if sym in ('<', '<='):
      l, r = r, l
      sym = {'<': '<=', '<=': '<'}[sym]
    else:
      sym = _NEG[sym]
  return (_role(l), sym, _role(r))


def compare_full(test, polarity=True):
  """Like compare_nf but keeps full normalised operand text."""
  neg = not polarity
  while isinstance(test, ast.UnaryOp) and isinstance(test.op, ast.Not):
    neg = not neg
    test = test.operand
  if not isinstance(test, ast.Compare) or len(test.ops) != 1:
    return None
  l, r = test.left, test.comparators[0]
  op = type(test.ops[0])
  sym = _FLIP.get(op)
  if sym is None:
    return None
  if op in (ast.Gt, ast.GtE):
    l, r = r, l
  if neg:
    if sym in ('<', '<='):
      l, r = r, l
      sym = {'<': '<=', '<=': '<'}[sym]
    else:
      sym = _NEG[sym]
  return (norm_text(l), sym, norm_text(r), l, r)


def _role(n):
  if isinstance(n, ast.Attribute):
    return n.attr
  return norm_text(n)


def is_gt_guard(test_pol, vtxt, total_txt):
  """(test, polarity) establishes  vtxt > total_txt."""
  test, pol = test_pol
  c = compare_full(test, pol)
  if c is None:
    return False
  l, sym, r = c[0], c[1], c[2]
  return sym == '<' and l == total_txt and r == vtxt


def stale_running_maximum(fn):
  """[(store, name, snapshot assignment)]: inside a loop a field is raised - `if v > N: X.f = v` - but N is a local that was read
  from X.f *before* the loop and is never updated in it.  The test then compares every element with the value the field had at
  the start, not with the maximum so far: a later, smaller element overwrites an earlier, larger one."""
  out = []
  for lp in ast.walk(fn):
    if not isinstance(lp, (ast.For, ast.While)):
      continue
    stored_in_loop = set(t.id for s in walk_stmts(lp) for t, _v, _o in store_targets(s) if isinstance(t, ast.Name))
    for s in walk_stmts(lp):
      if not (isinstance(s, ast.Assign) and len(s.targets) == 1 and isinstance(s.targets[0], ast.Attribute)):
        continue
      ftxt, vtxt = norm_text(s.targets[0]), norm_text(s.value)
      for t, pol in enclosing_tests(fn, s, stop_at=lp):
        c = compare_full(t, pol)
        if c is None or c[1] not in ('<', '<=') or c[2] != vtxt:
          continue
        name = c[0]
        if not name.isidentifier() or name in stored_in_loop:
          continue
        snaps = [a for a in walk_stmts(fn) if isinstance(a, ast.Assign) and len(a.targets) == 1 and isinstance(a.targets[0], ast.Name) and a.targets[0].id == name]
        if len(snaps) == 1 and norm_text(snaps[0].value) == ftxt and not any(snaps[0] is x for x in walk_stmts(lp)):
          out.append((s, name, snaps[0]))
  return out


def const_value(node):
  """Literal numeric value of a node (handles unary minus), else None."""
  if isinstance(node, ast.Constant) and isinstance(node.value, (int, float)) and not isinstance(node.value, bool):
    return node.value
  if isinstance(node, ast.UnaryOp) and isinstance(node.op, ast.USub):
    v = const_value(node.operand)
    return -v if v is not None else None
  # a module-level constant with one value program-wide (NOTES_PER_OCTAVE, constants.NOTES_PER_OCTAVE) is that value
  if isinstance(node, (ast.Name, ast.Attribute)):
    from . import nf
    nm = node.id if isinstance(node, ast.Name) else node.attr
    if nm.isupper() or (nm.replace('_', '').isupper() and nm.replace('_', '')):
      v = nf.GLOBAL_CONSTS.get(nm)
      if isinstance(v, (int, float)) and not isinstance(v, bool) and (isinstance(node, ast.Name) or isinstance(node.value, ast.Name)):
        return v
  return None


def find_function_defs(node):
  for n in ast.walk(node):
    if isinstance(n, (ast.FunctionDef, ast.AsyncFunctionDef)):
      yield n


def names_in(node):
  return set(n.id for n in ast.walk(node) if isinstance(n, ast.Name))


def attr_chain(node):
  """['a','b','c'] for a.b.c, with subscripts rendered as '[]'; None otherwise."""
  parts = []
  while True:
    if isinstance(node, ast.Attribute):
      parts.append(node.attr)
      node = node.value
    elif isinstance(node, ast.Subscript):
      parts.append('[]')
      node = node.value
    elif isinstance(node, ast.Name):
      parts.append(node.id)
      return list(reversed(parts))
    else:
      return None


def E(text):
  """The expression `text` as the rules see repository code (comparisons oriented
  as by loader.orient_comparisons)."""
  from .loader import orient_comparisons
  return orient_comparisons(ast.parse(text, mode='eval')).body


def T(text):
  """Normalised text of expression `text` in the loader's orientation."""
  from .loader import norm_text
  return norm_text(E(text))


def eq_sides(node, pred_a, pred_b=None, ops=(ast.Eq,)):
  """For a two-operand (in)equality, the operands as (a, b) with pred_a(a) (and
  pred_b(b)) whichever way round they are written; None if node is not one."""
  if not (isinstance(node, ast.Compare) and len(node.ops) == 1 and isinstance(node.ops[0], tuple(ops))):
    return None
  l, r = node.left, node.comparators[0]
  for a, b in ((l, r), (r, l)):
    try:
      if pred_a(a) and (pred_b is None or pred_b(b)):
        return (a, b)
    except Exception:
      pass
  return None


def blocks(fnode):
  """Every statement list (body, orelse, finalbody, handler body) under a function node."""
  yield fnode.body
  for st in walk_stmts(fnode):
    for field in ('body', 'orelse', 'finalbody'):
      v = getattr(st, field, None)
      if isinstance(v, list) and v and isinstance(v[0], ast.stmt):
        yield v
    for h in getattr(st, 'handlers', []) or []:
      yield h.body


def expand_locals(fn, expr, module_assigns=None, depth=6, at=None):
  """A copy of `expr` in which every local that is assigned exactly once in `fn` (by a plain `name = value`,
  outside loops) is replaced by its value, recursively; names bound once at module level (module_assigns:
  name -> [value nodes]) are replaced as well.  Used to look through temporaries and hoisted constants."""
  import copy
  defs = {}
  counts = {}
  params = set(a.arg for a in fn.args.posonlyargs + fn.args.args + fn.args.kwonlyargs)
  in_loop = set()
  for st in walk_stmts(fn):
    for tgt, val, op in store_targets(st):
      if isinstance(tgt, ast.Name):
        counts[tgt.id] = counts.get(tgt.id, 0) + 1
        if op == 'store' and val is not None and isinstance(st, ast.Assign) and len(st.targets) == 1 and st.targets[0] is tgt:
          defs[tgt.id] = val
          lp = enclosing_loops(fn, st)
          # a temporary of one loop iteration may be looked through from a use inside the same (innermost) loop
          if lp and not (at is not None and enclosing_loops(fn, at)[:len(lp)] == lp):
            in_loop.add(tgt.id)
    if isinstance(st, (ast.For, ast.AsyncFor)):
      for n in ast.walk(st.target):
        if isinstance(n, ast.Name):
          counts[n.id] = counts.get(n.id, 0) + 2
    # q, r = divmod(a, b): q is a // b and r is a % b
    if isinstance(st, ast.Assign) and len(st.targets) == 1 and isinstance(st.targets[0], ast.Tuple) and len(st.targets[0].elts) == 2 and \
        isinstance(st.value, ast.Call) and dotted(st.value.func) == 'divmod' and len(st.value.args) == 2 and not enclosing_loops(fn, st):
      for e_, op_ in zip(st.targets[0].elts, (ast.FloorDiv(), ast.Mod())):
        if isinstance(e_, ast.Name):
          defs[e_.id] = ast.BinOp(left=copy.deepcopy(st.value.args[0]), op=op_, right=copy.deepcopy(st.value.args[1]))

  class Sub(ast.NodeTransformer):
    def __init__(self, d):
      self.d = d

    def visit_Name(self, node):
      if not isinstance(node.ctx, ast.Load) or self.d <= 0:
        return node
      if node.id in defs and counts.get(node.id) == 1 and node.id not in params and node.id not in in_loop and not _accumulator(defs[node.id]):
        return Sub(self.d - 1).visit(copy.deepcopy(defs[node.id]))
      if module_assigns and node.id not in counts and node.id not in params and len(module_assigns.get(node.id, [])) == 1:
        return Sub(self.d - 1).visit(copy.deepcopy(module_assigns[node.id][0]))
      return node
  return Sub(depth).visit(copy.deepcopy(expr))


def _accumulator(v):
  """an empty container (literal or constructor call): the name is filled afterwards by append / extend / stores - its
  definition is not its value"""
  if isinstance(v, (ast.List, ast.Set, ast.Tuple)) and not v.elts:
    return True
  if isinstance(v, ast.Dict) and not v.keys:
    return True
  if isinstance(v, ast.Call) and not v.args and not v.keywords and (dotted(v.func) or '').split('.')[-1] in ('list', 'dict', 'set', 'OrderedDict', 'deque', 'Counter'):
    return True
  if isinstance(v, ast.Call) and (dotted(v.func) or '').split('.')[-1] == 'defaultdict':
    return True
  return False


def _terminal(block):
  """The block always leaves the enclosing statement list (return / raise / continue / break as its last statement)."""
  return bool(block) and isinstance(block[-1], (ast.Return, ast.Raise, ast.Continue, ast.Break))


def path_conditions(root, node, stop_at=None):
  """[(test, polarity)] known to hold whenever `node` executes: the tests of the enclosing If statements and, for every
  enclosing statement list, the negations of earlier `if c: <return|raise|continue|break>` guards (early exits).  Flattened:
  a positive conjunction contributes its conjuncts, a negated disjunction the negations of its disjuncts, `not x` flips."""
  raw = list(enclosing_tests(root, node, stop_at))
  pm = parents(root)
  child = node
  cur = pm.get(id(node))
  while cur is not None:
    for field in ('body', 'orelse', 'finalbody'):
      blk = getattr(cur, field, None)
      if isinstance(blk, list) and any(child is s for s in blk):
        for prev in blk:
          if prev is child:
            break
          if isinstance(prev, ast.If) and _terminal(prev.body) and not prev.orelse:
            raw.append((prev.test, False))
          elif isinstance(prev, ast.If) and prev.orelse and _terminal(prev.orelse) and not _terminal(prev.body):
            raw.append((prev.test, True))
          elif isinstance(prev, (ast.If, ast.With, ast.Try)):
            # an exit nested deeper in an earlier statement: past that statement the conjunction of the tests leading to the exit is false
            for x in ast.walk(prev):
              if isinstance(x, (ast.Return, ast.Raise, ast.Continue, ast.Break)) and not (isinstance(x, (ast.Continue, ast.Break)) and
                                                                                          any(isinstance(a_, (ast.For, ast.While)) and a_ is not prev for a_ in ancestors(prev, x))):
                tests = [(t if pol else ast.UnaryOp(op=ast.Not(), operand=t)) for (t, pol) in enclosing_tests(prev, x)]
                tests.append(prev.test if (isinstance(prev, ast.If) and any(x is n for s_ in prev.body for n in ast.walk(s_))) else
                             (ast.UnaryOp(op=ast.Not(), operand=prev.test) if isinstance(prev, ast.If) else ast.Constant(value=True)))
                raw.append((ast.BoolOp(op=ast.And(), values=tests) if len(tests) > 1 else tests[0], False))
    if stop_at is not None and cur is stop_at:
      break
    if isinstance(cur, (ast.FunctionDef, ast.AsyncFunctionDef)) and cur is not root:
      break
    child = cur
    cur = pm.get(id(cur))
  out = []

  def add(t, pol):
    if isinstance(t, ast.UnaryOp) and isinstance(t.op, ast.Not):
      add(t.operand, not pol)
    elif isinstance(t, ast.BoolOp) and isinstance(t.op, ast.And) and pol:
      for v in t.values:
        add(v, True)
    elif isinstance(t, ast.BoolOp) and isinstance(t.op, ast.Or) and not pol:
      for v in t.values:
        add(v, False)
    else:
      out.append((t, pol))
  for t, pol in raw:
    add(t, pol)
  return out


def carried_previous_deviations(fn, loop):
  """[(compare, carried name, current expr, deviating assignment, rhs)]: inside `loop` a loop-carried variable X is compared for
  (in)equality with an expression A of the current iteration - X plays "the A of the previous iteration" - but some assignment
  to X in the loop stores something that is not A: a constant (a clamped value) or the result of a call (a derived value).
  The comparison then no longer relates two iterations' A."""
  out = []
  targets = set(n.id for n in ast.walk(loop.target) if isinstance(n, ast.Name)) if isinstance(loop, ast.For) else set()
  stores = {}
  for st in walk_stmts(loop):
    if isinstance(st, ast.Assign):
      # plain, chained (a = b = v) and tuple assignments
      for t in st.targets:
        if isinstance(t, ast.Name):
          stores.setdefault(t.id, []).append((st, st.value))
        elif isinstance(t, (ast.Tuple, ast.List)) and isinstance(st.value, (ast.Tuple, ast.List)) and len(t.elts) == len(st.value.elts):
          for e, v in zip(t.elts, st.value.elts):
            if isinstance(e, ast.Name):
              stores.setdefault(e.id, []).append((st, v))
  for c in ast.walk(loop):
    if not (isinstance(c, ast.Compare) and len(c.ops) == 1 and isinstance(c.ops[0], (ast.Eq, ast.NotEq))):
      continue
    for x, a in ((c.left, c.comparators[0]), (c.comparators[0], c.left)):
      if not (isinstance(x, ast.Name) and x.id in stores and x.id not in targets):
        continue
      if isinstance(a, ast.Constant) or (isinstance(a, ast.Name) and a.id in stores and a.id not in targets and not _iteration_local(loop, a.id, stores)):
        continue
      a_txt = norm_text(expand_locals(loop, a, at=c) if isinstance(loop, (ast.FunctionDef,)) else a)
      a_names = set(n.id for n in ast.walk(a) if isinstance(n, ast.Name))
      for st, rhs in stores[x.id]:
        r_txt = norm_text(rhs)
        if r_txt == a_txt or r_txt == norm_text(a):
          continue
        # an iteration-local alias of A (index = chord.step - start; prev = index)
        if isinstance(rhs, ast.Name) and rhs.id in stores and len(stores[rhs.id]) == 1 and norm_text(stores[rhs.id][0][1]) == norm_text(a):
          continue
        if isinstance(a, ast.Name) and a.id in stores and len(stores[a.id]) == 1 and norm_text(stores[a.id][0][1]) == r_txt:
          continue
        derived = isinstance(rhs, ast.Name) and rhs.id in stores and any(isinstance(v, ast.Call) for _s, v in stores[rhs.id])
        if const_value(rhs) is not None or derived:
          out.append((c, x.id, a, st, rhs))
  return out


def _iteration_local(loop, name, stores):
  """name is assigned exactly once in the loop, at the top level of its body, before any use: an alias of this iteration."""
  return len(stores.get(name, [])) == 1 and any(stores[name][0][0] is s for s in loop.body)


def reachable_nodes(fi, depth=2):
  """AST nodes of `fi`, of the module-level functions it calls (transitively, `depth` levels) and of the values of the
  module-level names (bound once) that any of them reads: everything a function can "mention" without leaving its module.
  Used by necessary-condition rules of the form "a function that does X must refer to Y somewhere"."""
  mod = fi.module
  seen, todo, nodes = set(), [(fi, 0)], []
  while todo:
    f, d = todo.pop()
    if f.qualname in seen:
      continue
    seen.add(f.qualname)
    ns = list(ast.walk(f.node))
    nodes.extend(ns)
    if d < depth:
      for c in ns:
        if isinstance(c, ast.Call):
          g = mod.functions.get(dotted(c.func) or '')
          if g is not None:
            todo.append((g, d + 1))
  for n in list(nodes):
    if isinstance(n, ast.Name) and len(mod.assigns.get(n.id, [])) == 1:
      nodes.extend(ast.walk(mod.assigns[n.id][0]))
  return nodes


def guard_kind(fn, node, core):
  """How the statement `node` is guarded with respect to a core condition: core(test, polarity) recognises it.
  ('exact', None): some condition on the path *is* the core condition; ('wider', [other disjuncts]): the core condition appears only
  as one disjunct of a positive `or` (the statement also runs when another disjunct holds); ('none', None) otherwise."""
  def strip(t, pol):
    while isinstance(t, ast.UnaryOp) and isinstance(t.op, ast.Not):
      t, pol = t.operand, not pol
    return t, pol
  conds = [strip(t, p) for t, p in path_conditions(fn, node)]
  if any(core(t, p) for t, p in conds):
    return ('exact', None)
  for t, p in conds:
    if p and isinstance(t, ast.BoolOp) and isinstance(t.op, ast.Or):
      parts = [strip(v, True) for v in t.values]
      if any(core(v, q) for v, q in parts):
        return ('wider', [v for v, q in parts if not core(v, q)])
  return ('none', None)


def exits_missing(fn, spred):
  """Like exits_missing_call, for a predicate on any node (a store, a statement): the normal exits of `fn` reachable without a
  node satisfying spred having been executed."""
  return exits_missing_call(fn, None, _node_pred=spred)


def exits_missing_call(fn, pred, _node_pred=None):
  """Must-pass-through: the normal exits of `fn` (return statements and the end of the body) that can be reached without a call
  satisfying pred(call) having been evaluated.  Syntax-directed with the state "may not have called yet": both arms of a test,
  a loop body zero or more times, raise is no exit, handlers start from the state before the try.  Returns [exit node];
  the function node itself stands for falling off the end."""
  missing = []

  def has(node):
    if node is None:
      return False
    if _node_pred is not None:
      return any(_node_pred(c) for c in ast.walk(node))
    return any(isinstance(c, ast.Call) and pred(c) for c in ast.walk(node))

  def walk(stmts, nd):
    """nd: the call may not have happened yet.  Returns the same for the fall-through (None: no fall-through)."""
    for st in stmts:
      if nd is None:
        return None
      if isinstance(st, (ast.FunctionDef, ast.AsyncFunctionDef, ast.ClassDef)):
        continue
      if isinstance(st, ast.Return):
        if nd and not has(st.value):
          missing.append(st)
        return None
      if isinstance(st, ast.Raise):
        return None
      if isinstance(st, ast.If):
        nd0 = nd and not has(st.test)
        a, b = walk(st.body, nd0), walk(st.orelse, nd0)
        nd = None if (a is None and b is None) else bool(a) or bool(b)
        continue
      if isinstance(st, (ast.For, ast.While)):
        nd0 = nd and not has(st.iter if isinstance(st, ast.For) else st.test)
        walk(st.body, nd0)            # exits inside the body are recorded; the body may not run at all
        r = walk(st.orelse, nd0)
        nd = nd0 if r is None else (nd0 or r)
        continue
      if isinstance(st, ast.With):
        nd = walk(st.body, nd and not any(has(i.context_expr) for i in st.items))
        continue
      if isinstance(st, ast.Try):
        r = walk(st.body, nd)
        hs = [walk(h.body, nd) for h in st.handlers]
        rs = [x for x in [r] + hs if x is not None]
        nd = None if not rs else any(rs)
        if st.orelse and nd is not None:
          nd = walk(st.orelse, nd)
        if st.finalbody:
          nd = walk(st.finalbody, bool(nd)) if nd is not None else walk(st.finalbody, True) and None
        continue
      if isinstance(st, (ast.Continue, ast.Break)):
        return nd          # approximated: control stays inside the function
      if has(st):
        nd = False
    return nd
  if walk(fn.body, True):
    missing.append(fn)
  return missing


def reaching_def(fn, name, at):
  """The value of the assignment `name = value` that reaches `at` along its own block structure: the last plain assignment to the
  name before `at` in the statement list that contains it or in an enclosing one, provided no compound statement in between
  also assigns it.  None if there is none or it is ambiguous."""
  pm = parents(fn)
  node = at
  while node is not None and not isinstance(node, ast.stmt):
    node = pm.get(id(node))
  child = node
  cur = pm.get(id(child)) if child is not None else None
  while cur is not None:
    for field in ('body', 'orelse', 'finalbody'):
      blk = getattr(cur, field, None)
      if isinstance(blk, list) and any(child is s for s in blk):
        idx = next(i for i, s in enumerate(blk) if s is child)
        for prev in reversed(blk[:idx]):
          if isinstance(prev, ast.Assign) and len(prev.targets) == 1 and isinstance(prev.targets[0], ast.Name) and prev.targets[0].id == name:
            return prev.value
          if any(isinstance(x, ast.Name) and x.id == name and isinstance(x.ctx, ast.Store) for x in ast.walk(prev)):
            return None
    if isinstance(cur, (ast.For, ast.While)) and any(isinstance(x, ast.Name) and x.id == name and isinstance(x.ctx, ast.Store) for x in ast.walk(cur)):
      return None       # may be re-assigned by a later statement of an earlier iteration
    if isinstance(cur, (ast.FunctionDef, ast.AsyncFunctionDef)):
      break
    child, cur = cur, pm.get(id(cur))
  return None


def raised_class(mod, exc):
  """(class name, constructor helper | None) of a raised expression.  `raise C(...)` and `raise C` give (C, None);
  `raise C.make(...)` where C is a class of `mod` and make is a classmethod / staticmethod of C whose every return is cls(...) or
  C(...) gives (C, 'make'): the object raised is still a C."""
  node = exc.func if isinstance(exc, ast.Call) else exc
  name = (dotted(node) or '?')
  if isinstance(exc, ast.Call) and isinstance(node, ast.Attribute) and isinstance(node.value, ast.Name) and mod is not None:
    ci = mod.classes.get(node.value.id)

    def makes_instance(mname, depth=0):
      m = ci.methods.get(mname)
      if m is None or depth > 3:
        return False
      rets = [r for r in walk_stmts(m.node, into_nested=False) if isinstance(r, ast.Return)]
      first = m.params()[0] if m.params() else None

      def inst(v):
        if isinstance(v, ast.Call) and isinstance(v.func, ast.Name) and v.func.id in (first, ci.name):
          return True
        # ... or hands the job to another constructor helper of the class: cls.other(...)
        return isinstance(v, ast.Call) and isinstance(v.func, ast.Attribute) and isinstance(v.func.value, ast.Name) and v.func.value.id in (first, ci.name) and \
            makes_instance(v.func.attr, depth + 1)
      return bool(rets) and all(inst(r.value) for r in rets)
    if ci is not None and makes_instance(node.attr):
      return (ci.name, node.attr)
  return (name.split('.')[-1], None)


def inline_nested(fi, expr, depth=3):
  """expr with calls of fi's nested one-return helpers replaced by the returned expression (arguments and defaults substituted)."""
  from sa import pathval

  class T(ast.NodeTransformer):
    def visit_Call(self, node):
      self.generic_visit(node)
      g = getattr(fi, 'nested', {}).get(node.func.id) if isinstance(node.func, ast.Name) else None
      if g is None or depth <= 0:
        return node
      body = [b for b in g.node.body if not (isinstance(b, ast.Expr) and isinstance(b.value, ast.Constant))]
      if len(body) != 1 or not isinstance(body[0], ast.Return) or body[0].value is None or any(isinstance(a, ast.Starred) for a in node.args) or any(k.arg is None for k in node.keywords):
        return node
      a = g.node.args
      pos = a.posonlyargs + a.args
      env = dict((q.arg, d) for q, d in zip(pos[len(pos) - len(a.defaults):], a.defaults))
      env.update((q.arg, x) for q, x in zip(pos, node.args))
      env.update((k.arg, k.value) for k in node.keywords)
      if any(q.arg not in env for q in pos):
        return node
      return pathval.subst(body[0].value, env)
  import copy
  return T().visit(copy.deepcopy(expr))
