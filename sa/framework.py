"""Check framework: obligations, findings, known-findings protocol, evidence,
replay files, two-way self-test (DESIGN.md §1, §7)."""
import ast
import hashlib
import importlib
import json
import os
import sys
import time
import traceback

from . import loader
from . import reference
from .loader import AnalysisError, Program, norm_text
from .schema import Schema
from .pts import Interp

VERIF = os.path.dirname(os.path.dirname(os.path.abspath(__file__)))
# maintenance tools that run the checks on a deliberately modified /repo (tools/seed_*.py) send the output elsewhere,
# so that evidence/ always describes a run on /repo as it is
EVIDENCE_DIR = os.environ.get('VERIF_EVIDENCE_DIR') or os.path.join(VERIF, 'evidence')
REPLAY_DIR = os.environ.get('VERIF_REPLAY_DIR') or os.path.join(VERIF, 'replays')
KNOWN_FILE = os.path.join(VERIF, 'known_findings.json')

COMMON_TRUSTED = [
    'CPython ast (and re._parser where regexes are read) parse the source as the interpreter would',
    'no reflective writes in analysed code (setattr/exec/eval/globals()/__dict__): checked on every run',
    'frozen tables in the rule modules (contracts, allow-list rows, spec rows), each row with its reason',
]


class Obligation:
  __slots__ = ('rule', 'where', 'module', 'function', 'construct', 'ok', 'why', 'chain', 'status', 'undecided')

  def __init__(self, rule, where, module, function, construct, ok, why, chain=None, undecided=None):
    self.rule = rule
    self.where = where
    self.module = module
    self.function = function
    self.construct = construct
    self.ok = ok
    self.why = why
    self.chain = chain
    self.undecided = undecided      # reason why a failed shape rule is "cannot decide" rather than a violation
    self.status = 'ok' if ok else ('undecided' if undecided else 'violation')

  def key(self, prop):
    return (prop, self.rule, self.module, self.function, self.construct)

  def as_dict(self, prop=None):
    d = {'rule': self.rule, 'where': self.where, 'module': self.module, 'function': self.function,
         'construct': self.construct, 'verdict': self.status, 'why': self.why}
    if self.chain:
      d['call_chain'] = self.chain
    if prop:
      d['property'] = prop
    return d


class Ctx:
  """Everything a rule module needs; one per (tree variant, property run)."""

  def __init__(self, prop, tier='quick', overlay=None, repo=None):
    self.prop = prop
    self.tier = tier
    self.overlay = overlay
    self.P = Program(repo=repo, overlay=overlay)
    self.S = Schema(repo=repo, overlay=overlay)
    self.obligations = []
    self.stats = {}
    self.notes = []
    self.unanalysed = []
    self._cache = {}
    self._restruct = {}
    self.robust = ()
    self.reflective = []
    self._publish_constants()
    self._reflective_scan()

  # ---- engine access
  def analyze(self, fq, param_types=None, consts=None):
    key = (fq, tuple(sorted((param_types or {}).items())), tuple(sorted((consts or {}).items())))
    if key not in self._cache:
      fi = self.P.func(fq)
      it = Interp(self.P, self.S)
      res = it.analyze(fi, param_types, consts)
      res.interp = it
      for k, v in res.stats.items():
        self.stats['pts_' + k] = self.stats.get('pts_' + k, 0) + v
      self._cache[key] = res
    return self._cache[key]

  def func(self, fq):
    return self.P.func(fq)

  def cls(self, fq):
    return self.P.cls(fq)

  # ---- recording
  def ob(self, rule, owner, node, ok, why, construct=None, chain=None, depends=(), definite=False, unknown=None):
    """Record one rule instance.  owner: FuncInfo | ClassInfo | ModuleInfo.
    unknown: reason string when a failed instance only says that the analysis cannot classify the construct."""
    mod = owner.module if hasattr(owner, 'qualname') else owner
    fn = owner.qualname if hasattr(owner, 'qualname') else '<module>'
    if construct is None:
      construct = norm_text(node) if isinstance(node, ast.AST) else str(node)
    if len(construct) > 300:
      construct = construct[:297] + '...'
    where = loader.loc(mod, node) if isinstance(node, ast.AST) else mod.rel
    undec = None
    # definite: the rule has positively identified the deviating construct (a located guard / operand / statement whose
    # normal form differs), so the verdict does not depend on the arrangement of the surrounding statements
    if not ok and not definite and not self._robust(rule):
      undec = self._restructured(owner, mod)
      for dep in depends or ():       # other functions whose arrangement the rule reads
        if undec is None and dep is not None and hasattr(dep, 'qualname'):
          undec = self._restructured(dep, dep.module)
    if not ok and unknown:
      undec = unknown
    o = Obligation(rule, where, mod.rel, fn, construct, bool(ok), why, chain, undecided=undec)
    self.obligations.append(o)
    return o

  def _robust(self, rule):
    """Rules whose verdict does not depend on the arrangement of statements (ownership, order and tie analyses,
    table folding, schema coverage, normal-form algebra...): listed by prefix in the rule module's ROBUST."""
    return any(rule == r or rule.startswith(r + '/') or rule.startswith(r) and r.endswith('/') for r in self.robust)

  def _restructured(self, owner, mod):
    """Reason string if the owning function was restructured relative to the reference the shape rules were
    confirmed on (sa/reference.py); None if it is (nearly) the same arrangement of statements."""
    node = getattr(owner, 'node', None)
    q = getattr(owner, 'qualname', None)
    if os.environ.get('VERIF_NO_GATE'):      # diagnostic only (tools/seed_matrix.py --no-gate): measure what the gate hides
      return None
    if node is None or q is None or not isinstance(node, (ast.FunctionDef, ast.AsyncFunctionDef)):
      return None
    fi = getattr(owner, 'fi', owner)          # a canonicalised copy keeps the statement arrangement of the original
    k = (mod.rel, q)
    if k not in self._restruct:
      r, d, known = reference.restructured(mod.rel, q, getattr(fi, 'node', node))
      if not r:
        # code moved into a helper the rules were never confirmed on (extract-function refactoring)
        called = set()
        for c in ast.walk(getattr(fi, 'node', node)):
          if isinstance(c, ast.Call):
            if isinstance(c.func, ast.Name):
              called.add(c.func.id)
            elif isinstance(c.func, ast.Attribute):
              called.add(c.func.attr)
        refd = reference.load().get('functions', {})
        new = sorted(q2 for q2 in mod.all_functions if q2.split('.')[-1] in called and reference.key(mod.rel, q2) not in refd)
        if new:
          r, d = True, '%s statement-level edits and a call to the new function %s' % (d, new[0])
      self._restruct[k] = ('%s was restructured (%s statement-level edits relative to the reference the rule was confirmed on)' % (q, d) if known else
                           '%s is not among the functions the rule was confirmed on' % q) if r else None
    return self._restruct[k]

  def require(self, cond, msg):
    if not cond:
      raise AnalysisError(msg)

  def floor(self, rule, n):
    c = sum(1 for o in self.obligations if o.rule == rule or o.rule.startswith(rule + '/'))
    if c < n:
      raise AnalysisError('rule %s matched %d instances, floor is %d (vacuous pass refused)' % (rule, c, n))

  def note(self, text):
    self.notes.append(text)

  def count(self, key, n=1):
    self.stats[key] = self.stats.get(key, 0) + n

  # test-support modules: imported only by *_test.py (and by each other); verified on every run
  TEST_SUPPORT = ('note_seq.testing_lib', 'note_seq.protobuf.compare')

  def _publish_constants(self):
    """nf.GLOBAL_CONSTS: UPPER_CASE module-level names bound once to a number (folded), with one value program-wide."""
    from . import nf, fold
    fd = fold.Folder(self.P, self.S)
    vals = {}
    for mi in self.P.modules.values():
      if mi.name in getattr(self, 'TEST_SUPPORT', ()):
        continue
      for name, defs in mi.assigns.items():
        if not (name.isupper() or (name.startswith('_') and name[1:].isupper())) or len(defs) != 1:
          continue
        try:
          v = fd.module_const(mi, name)
        except Exception:
          continue
        if isinstance(v, bool) or not isinstance(v, (int, float)):
          continue
        vals.setdefault(name, set()).add(v)
    nf.GLOBAL_CONSTS.clear()
    nf.GLOBAL_CONSTS.update((k, next(iter(v))) for k, v in vals.items() if len(v) == 1)
    # literal containers bound once at module level (scenario membership tests)
    from . import scenario
    boxes = {}
    for mi in self.P.modules.values():
      for name, vals_ in mi.assigns.items():
        v_ = vals_[0] if len(vals_) == 1 else None
        if isinstance(v_, ast.Call) and isinstance(v_.func, ast.Name) and v_.func.id in ('frozenset', 'set', 'tuple', 'list') and len(v_.args) == 1 and not v_.keywords:
          v_ = v_.args[0]       # frozenset([...]) holds the elements of the literal
        if v_ is not None and name.replace('_', '').isupper() and isinstance(v_, (ast.Dict, ast.Set, ast.Tuple, ast.List)):
          try:
            boxes.setdefault(name, []).append(ast.literal_eval(v_))
          except (ValueError, SyntaxError):
            pass
    pure = {}
    OKN = (ast.Name, ast.Constant, ast.BinOp, ast.BoolOp, ast.UnaryOp, ast.Compare, ast.IfExp, ast.Load, ast.operator, ast.boolop, ast.unaryop, ast.cmpop, ast.Call)
    for mi in self.P.modules.values():
      for name, fi in mi.functions.items():
        body = [st for st in fi.node.body if not (isinstance(st, ast.Expr) and isinstance(st.value, ast.Constant))]
        if len(body) == 1 and isinstance(body[0], ast.Return) and body[0].value is not None and not fi.node.args.kwonlyargs and not fi.node.args.vararg and \
            all(isinstance(x, OKN) for x in ast.walk(body[0].value)):
          ps = set(a.arg for a in fi.node.args.args)
          if all(x.id in ps for x in ast.walk(body[0].value) if isinstance(x, ast.Name) and not any(isinstance(c, ast.Call) and c.func is x for c in ast.walk(body[0].value))):
            pure.setdefault(name, []).append(fi.node)
    scenario.PURE_FUNCS.clear()
    scenario.PURE_FUNCS.update((k, v[0]) for k, v in pure.items() if len(v) == 1)
    scenario.CONTAINERS.clear()
    scenario.CONTAINERS.update((k, v[0]) for k, v in boxes.items() if len(v) == 1)

  def _reflective_scan(self):
    bad = []
    for mi in self.P.modules.values():
      if mi.name not in self.TEST_SUPPORT:
        for imp in mi.imports.values():
          tgt = imp[1] if imp[0] == 'module' else imp[1] + '.' + imp[2]
          if tgt in self.TEST_SUPPORT or (imp[0] == 'symbol' and imp[1] in self.TEST_SUPPORT):
            raise AnalysisError('%s imports test-support module %s, which is outside the analysed code' % (mi.name, tgt))
    for mi in self.P.modules.values():
      if mi.name in self.TEST_SUPPORT:
        continue
      for n in ast.walk(mi.tree):
        if isinstance(n, ast.Call) and isinstance(n.func, ast.Name) and n.func.id in ('setattr', 'exec', 'eval', 'globals', 'delattr'):
          bad.append('%s:%d %s' % (mi.rel, n.lineno, n.func.id))
        if isinstance(n, ast.Attribute) and n.attr == '__dict__':
          bad.append('%s:%d __dict__' % (mi.rel, n.lineno))
    # not fatal at once: rules that positively locate a deviation may still report it; without a violation the run ends as
    # "cannot decide" (run_rules), because every "holds" verdict rests on the absence of reflective writes
    self.reflective = bad


# ----------------------------------------------------------------- known findings
def load_known():
  if not os.path.exists(KNOWN_FILE):
    return {'known': [], 'fixed': []}
  with open(KNOWN_FILE) as f:
    return json.load(f)


def known_match(entry, key):
  prop, rule, module, function, construct = key
  return (entry.get('property') == prop and entry.get('rule') == rule and entry.get('module') == module and
          entry.get('function') == function and entry.get('construct') == construct)


# ----------------------------------------------------------------- running rules
def load_rules(prop):
  sys.path.insert(0, VERIF) if VERIF not in sys.path else None
  return importlib.import_module('rules.' + prop)


def run_rules(prop, tier='quick', overlay=None, repo=None):
  """Run the property's rule module on a tree (the real one, or an overlay
  variant).  Returns ctx; raises AnalysisError when undecidable."""
  mod = load_rules(prop)
  ctx = Ctx(prop, tier, overlay=overlay, repo=repo)
  ctx.robust = tuple(getattr(mod, 'ROBUST', ()))
  ctx.P.check_floors()

  def mark_known():
    # recorded genuine defects (known_findings.json) are not "violations found" for the purposes below: they neither excuse
    # an analysis that gave up nor hide undecided instances
    kn = load_known().get('known', [])
    for o in ctx.obligations:
      if o.status == 'violation' and any(known_match(e, o.key(prop)) for e in kn):
        o.status = 'known'
  try:
    mod.run(ctx)
  except Exception as e:
    mark_known()
    # an anchor that vanished *after* violations were already established does not mask them
    if any(o.status == 'violation' for o in ctx.obligations):
      ctx.note('analysis stopped early (%s); the violations found before that point are the verdict' % e)
    else:
      raise
  mark_known()
  # the "holds" verdicts of a property rest on the absence of reflective writes in the code its rules read: the modules that own
  # a rule instance of this run and the files the property is anchored in (properties.jsonl).  A reflective construct in another
  # module does not touch what was read here.
  if ctx.reflective and not any(o.status == 'violation' for o in ctx.obligations):
    scope = set(o.module for o in ctx.obligations)
    try:
      for line in open(os.path.join(os.path.dirname(os.path.dirname(os.path.abspath(__file__))), 'properties.jsonl')):
        rec = json.loads(line)
        if rec.get('id') == prop:
          scope |= set((rec.get('anchors') or {}).get('files') or [])
    except (OSError, ValueError):
      pass
    inside = [b for b in ctx.reflective if b.split(':')[0] in scope]
    if inside:
      raise AnalysisError('reflective constructs in analysed code (trusted base broken): %s' % inside[:5])
    ctx.note('reflective constructs outside the modules this property reads: %s' % ctx.reflective[:5])
  # failed shape rules in restructured functions: no verdict (unless real violations were found elsewhere)
  und = [o for o in ctx.obligations if o.status == 'undecided']
  if und and not any(o.status == 'violation' for o in ctx.obligations):
    raise AnalysisError('cannot decide: %s; rule(s) %s no longer recognise the code (a shape rule that fails on a restructured function is not a violation)' % (
        '; '.join(sorted(set(o.undecided for o in und))), ', '.join(sorted(set(o.rule for o in und)))))
  # floors guard against a vacuous *pass*; when violations were found they are the verdict
  if all(o.ok or o.status == 'known' for o in ctx.obligations):
    for rule, n in getattr(mod, 'FLOORS', {}).items():
      ctx.floor(rule, n)
  return ctx


def violation_keys(ctx):
  return set(o.key(ctx.prop) for o in ctx.obligations if o.status == 'violation')


def write_evidence(prop, tier, seed, ctx, mod, wall, n_viol, known_lines, selftest=None, error=None):
  os.makedirs(EVIDENCE_DIR, exist_ok=True)
  obs = ctx.obligations if ctx is not None else []
  rules = {}
  for o in obs:
    r = rules.setdefault(o.rule, {'instances': 0, 'ok': 0, 'violated': 0, 'known': 0, 'undecided': 0})
    r['instances'] += 1
    r[{'ok': 'ok', 'known': 'known', 'undecided': 'undecided'}.get(o.status, 'violated')] += 1
  samples = []
  seen_rules = set()
  for o in obs:
    if o.rule not in seen_rules or o.status != 'ok':
      seen_rules.add(o.rule)
      samples.append(o.as_dict())
  samples = samples[:80]
  cov = {
      'explanation': getattr(mod, 'EXPLANATION', '') if mod else 'analysis error before rules ran',
      'obligations': len(obs),
      'discharged': sum(1 for o in obs if o.ok),
      'checker_cmd': './check %s --tier %s' % (prop, tier),
      'trusted_base': COMMON_TRUSTED + list(getattr(mod, 'TRUSTED', [])) if mod else COMMON_TRUSTED,
      'evaluations': max(1, len(obs)),
      'distinct_nontrivial': len(set((o.rule, o.module, o.function, o.construct) for o in obs)),
      'rule': 'one evaluation = one rule instance (a construct of /repo the rule was applied to); distinct by (rule, module, function, normalised construct)',
      'samples': samples or [{'note': 'no obligations recorded'}],
      'rules': rules,
      'exhaustive': False,
      'not_decided': list(getattr(mod, 'NOT_DECIDED', [])) if mod else [],
  }
  if ctx is not None:
    c = ctx.P.counts()
    cov['analysed'] = {'modules': c['modules'], 'classes': c['classes'], 'functions': c['functions'],
                       'source_digest': ctx.P.digest}
    cov['engine_stats'] = ctx.stats
    if ctx.notes:
      cov['notes'] = ctx.notes
    if ctx.unanalysed:
      cov['unanalysed_implicit_raisers'] = ctx.unanalysed[:60]
  if known_lines:
    cov['known_findings_reported'] = known_lines
  if selftest is not None:
    cov['selftest'] = selftest
  if error:
    cov['analysis_error'] = error
  ev = {
      'property_id': prop,
      'tier': tier,
      'seed': seed,
      'level': 'other',
      'coverage': cov,
      'assumptions': list(getattr(mod, 'ASSUMPTIONS', [])) if mod else [],
      'wall_s': round(wall, 3),
      'violations': n_viol,
  }
  with open(os.path.join(EVIDENCE_DIR, prop + '.json'), 'w') as f:
    json.dump(ev, f, indent=1, default=str)
    f.write('\n')


def write_replay(prop, o):
  os.makedirs(REPLAY_DIR, exist_ok=True)
  d = o.as_dict(prop)
  h = hashlib.sha1(json.dumps(o.key(prop)).encode()).hexdigest()[:12]
  path = os.path.join(REPLAY_DIR, '%s-%s.json' % (prop, h))
  with open(path, 'w') as f:
    json.dump(d, f, indent=1)
    f.write('\n')
  return path


def main_check(prop, tier='quick', seed=0, jobs=None):
  """Entry used by ./check.  Returns the process exit code."""
  t0 = time.time()
  mod = None
  ctx = None
  try:
    mod = load_rules(prop)
    ctx = run_rules(prop, tier)
    known = load_known()
    known_lines = []
    new = []
    for o in ctx.obligations:
      if o.ok or o.status == 'undecided':
        continue
      if o.status == 'known':
        o.status = 'violation'      # matched again below, where the KNOWN-FINDING line is produced
      k = o.key(prop)
      ent = next((e for e in known.get('known', []) if known_match(e, k)), None)
      if ent is not None:
        o.status = 'known'
        line = 'KNOWN-FINDING: property=%s %s [%s %s::%s] %s' % (prop, ent.get('what', o.why), o.rule, o.module, o.function, o.construct)
        if line not in known_lines:
          known_lines.append(line)
      else:
        new.append(o)
    selftest = None
    st_failed = []
    if tier == 'thorough':
      from . import selftest as st
      selftest, st_failed = st.run_selftest(prop, mod, violation_keys(ctx), seed, jobs, owners=[(o.module, o.function) for o in ctx.obligations])
      stale = [e for e in known.get('known', []) if e.get('property') == prop and
               not any(known_match(e, o.key(prop)) for o in ctx.obligations if not o.ok)]
      if stale:
        selftest['stale_known_entries'] = stale
    for l in known_lines:
      print(l)
    seen = set()
    for o in new:
      k = o.key(prop)
      if k in seen:
        continue
      seen.add(k)
      path = write_replay(prop, o)
      print('FINDING %s rule=%s at %s in %s::%s' % (prop, o.rule, o.where, o.module, o.function))
      print('    construct: %s' % o.construct)
      print('    why: %s' % o.why)
      if o.chain:
        print('    call chain: %s' % o.chain)
      print('VIOLATION property=%s replay=%s' % (prop, path))
    wall = time.time() - t0
    write_evidence(prop, tier, seed, ctx, mod, wall, len(seen), known_lines, selftest)
    n_ob = len(ctx.obligations)
    print('%s %s: %d rule instances, %d hold, %d known, %d violated, %.2fs' % (
        prop, tier, n_ob, sum(1 for o in ctx.obligations if o.ok), sum(1 for o in ctx.obligations if o.status == 'known'), len(seen), wall))
    if st_failed:
      for f in st_failed:
        print('ANALYSIS-ERROR selftest: %s' % f)
      return 2
    return 1 if seen else 0
  except AnalysisError as e:
    print('ANALYSIS-ERROR property=%s: %s' % (prop, e))
    try:
      write_evidence(prop, tier, seed, ctx, mod, time.time() - t0, 0, [], error=str(e))
    except Exception:
      pass
    return 2
  except Exception as e:  # internal error: never a verdict
    print('ANALYSIS-ERROR property=%s: internal error %s: %s' % (prop, type(e).__name__, e))
    traceback.print_exc()
    try:
      write_evidence(prop, tier, seed, ctx, mod, time.time() - t0, 0, [], error='%s: %s' % (type(e).__name__, e))
    except Exception:
      pass
    return 2


def main_replay(path):
  try:
    d = json.load(open(path))
    prop = d['property']
    ctx = run_rules(prop, 'quick')
    key = (prop, d['rule'], d['module'], d['function'], d['construct'])
    hit = [o for o in ctx.obligations if o.key(prop) == key]
    if not hit:
      print('replay: instance no longer exists on the current tree (rule=%s construct=%s)' % (d['rule'], d['construct']))
      return 0
    bad = [o for o in hit if not o.ok]
    for o in bad:
      print('replay: still violated at %s: %s' % (o.where, o.why))
      print('VIOLATION property=%s replay=%s' % (prop, path))
    if not bad:
      print('replay: instance now holds')
    return 1 if bad else 0
  except AnalysisError as e:
    print('ANALYSIS-ERROR replay: %s' % e)
    return 2
  except Exception as e:
    print('ANALYSIS-ERROR replay: internal error %s: %s' % (type(e).__name__, e))
    return 2
