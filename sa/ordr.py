"""§3.2 ORD: iteration-order sensitivity of traversals of the permutable repeated
fields of a NoteSequence.

For a function with a NoteSequence-typed parameter the analysis
  1. computes the *provenance* of every iterable / subscripted expression:
     STORAGE (a permutable repeated field of an input-derived NoteSequence, or
     anything preserving its relative order: list(), filtering comprehension,
     slices, chain, zip/enumerate, lists accumulated in a storage-order loop),
     SORTED (sorted()/.sort() with a key that starts with a time/step field),
     or OTHER;
  2. classifies the body of every STORAGE traversal as order-insensitive
     (own-element writes, bag accumulation, commutative reductions, idempotent
     constant stores, find-unique) or order-sensitive, with the reason;
  3. reports positional reads ([0], [-1], [i], slices) of STORAGE values.
Everything is syntactic + def-use; no code is executed.
"""
import ast

from . import astutil as U
from .loader import norm_text, dotted, AnalysisError

PERMUTABLE = ('notes', 'control_changes', 'pitch_bends', 'text_annotations', 'tempos', 'time_signatures',
              'key_signatures')
TIME_KEYS = ('time', 'start_time', 'end_time', 'quantized_start_step', 'quantized_end_step', 'quantized_step')
INSENSITIVE_CONSUMERS = {'sorted', 'set', 'frozenset', 'all', 'any', 'sum', 'max', 'min', 'len', 'collections.Counter',
                         'numpy.max', 'numpy.min', 'numpy.sum', 'np.max', 'np.min', 'np.sum', 'dict'}
ORDER_PRESERVING = {'list', 'tuple', 'reversed', 'enumerate', 'iter', 'zip', 'itertools.chain', 'filter', 'itertools.groupby',
                    'itertools.izip', 'itertools.islice', 'numpy.array', 'np.array'}
# library functions that *assume* their input is already sorted: on storage-ordered data their result depends on that order
ORDER_ASSUMING = {
    'heapq.merge': 'only interleaves inputs that are each already sorted: on unsorted inputs the merged stream is not in time order',
    'bisect.bisect': 'searches a sorted list', 'bisect.bisect_left': 'searches a sorted list', 'bisect.bisect_right': 'searches a sorted list',
    'bisect.insort': 'inserts into a sorted list',
    'itertools.groupby': 'merges only adjacent equal keys',
}
ACCUMULATE = {'append', 'extend', 'add', 'update', 'appendleft', 'extendleft'}
LOG_PREFIX = ('logging.', 'absl.logging.', 'warnings.')
SHAPE_READS = {'len'}


# prefix of reasons that say "this construct is outside what the analysis classifies" - not a positive finding of order
# sensitivity.  Rule modules report a site whose reasons are all of this class as "cannot decide" (exit 2), never as a VIOLATION.
UNK = 'cannot classify: '


def undecided_reason(site, reasons=None):
  """The reason string if the site is only unclassified (not positively order-sensitive), else None."""
  reasons = site.reasons if reasons is None else reasons
  if not reasons:
    return None
  if site.prov.detail.startswith(UNK) or all(r.startswith(UNK) for r in reasons):
    return '; '.join(r for r in reasons if r.startswith(UNK)) or site.prov.detail
  return None


def instrument_order(ctx, fi, o, rule, keeps_order):
  """Location-independent: PrettyMIDI keeps the order of pm.instruments (pmfacts.write_keeps_instrument_order), so a loop that
  appends to `<pm>.instruments` must not run in an order derived from storage order (e.g. the insertion order of a dict that
  was filled while walking the notes): the tracks - and the instrument numbers read back - would depend on how the events
  happen to be stored."""
  if not keeps_order:
    return
  for lp in ast.walk(fi.node):
    if not isinstance(lp, ast.For):
      continue
    if not any(isinstance(c, ast.Call) and isinstance(c.func, ast.Attribute) and c.func.attr in ('append', 'extend', 'insert') and
               isinstance(c.func.value, ast.Attribute) and c.func.value.attr == 'instruments' for c in ast.walk(lp)):
      continue
    p = o.prov(lp.iter, lp)
    # a dict filled while walking storage order yields its keys / items in insertion order, i.e. first appearance in storage order
    bad = (p.kind in ('STORAGE', 'BADSORT') and not p.detail.startswith(UNK)) or (p.kind == 'OTHER' and p.detail.startswith('dict:'))
    ctx.ob(rule, fi, lp, not bad, 'instruments are created in %s order' % ('sorted key' if p.kind == 'SORTED' else 'an order independent of storage') if not bad else
           'instruments are appended to the PrettyMIDI object while iterating %s in storage-derived order (%s); PrettyMIDI.write keeps that order, so track order and the '
           'instrument numbers read back depend on the order in which the events are stored' % (norm_text(lp.iter), p.detail), construct='order in which instruments are created',
           definite=True, unknown=(p.detail if p.detail.startswith(UNK) else None))


class Prov:
  __slots__ = ('kind', 'detail')

  def __init__(self, kind, detail=''):
    self.kind = kind      # 'STORAGE' | 'SORTED' | 'BADSORT' | 'OTHER'
    self.detail = detail

  def __repr__(self):
    return '%s(%s)' % (self.kind, self.detail)


OTHER = Prov('OTHER')


def _join(ps):
  ps = [p for p in ps if p is not None]
  for k in ('STORAGE', 'BADSORT'):
    for p in ps:
      if p.kind == k:
        return p
  if ps and all(p.kind == 'SORTED' for p in ps):
    return ps[0] if len(ps) == 1 else OTHER
  return OTHER


class Site:
  """One examined construct."""
  __slots__ = ('kind', 'node', 'stmt', 'prov', 'reasons', 'what')

  def __init__(self, kind, node, stmt, prov, reasons, what):
    self.kind = kind        # 'traversal' | 'positional'
    self.node = node
    self.stmt = stmt
    self.prov = prov
    self.reasons = reasons  # [] = order-insensitive
    self.what = what


class FuncORD:
  def __init__(self, fi, ns_params, extra_storage_names=()):
    self.fi = fi
    self.fn = fi.node
    self.ns_names = set(ns_params)
    self.body_stmts = [s for s in U.walk_stmts(self.fn, into_nested=True)]
    self.defs = {}       # name -> [(lineno, value node or None, stmt)]
    self.sorts = {}      # name -> [(lineno, key node, stmt)]
    self.appends = {}    # name -> [(lineno, stmt, in_storage_loop?)]
    self.accum = {}      # name -> 'list' | 'dict' : accumulated inside a STORAGE traversal
    self.for_targets = {}  # name -> [For node]
    self.extra_storage = set(extra_storage_names)
    self._index()
    self._close_ns_names()
    self.sites = []

  # ---------------------------------------------------------------- indexing
  def _index(self):
    for st in self.body_stmts:
      if isinstance(st, (ast.Assign, ast.AnnAssign, ast.AugAssign)):
        for tgt, val, op in U.store_targets(st):
          if isinstance(tgt, ast.Name):
            self.defs.setdefault(tgt.id, []).append((st.lineno, val if op == 'store' else None, st))
        if isinstance(st, ast.Assign):
          for t in st.targets:
            if isinstance(t, (ast.Tuple, ast.List)):
              for e in t.elts:
                if isinstance(e, ast.Name):
                  self.defs.setdefault(e.id, []).append((st.lineno, None, st))
      elif isinstance(st, (ast.For, ast.AsyncFor)):
        for n in ast.walk(st.target):
          if isinstance(n, ast.Name):
            self.for_targets.setdefault(n.id, []).append(st)
      elif isinstance(st, ast.Expr) and isinstance(st.value, ast.Call) and isinstance(st.value.func, ast.Attribute):
        c = st.value
        base = c.func.value
        if isinstance(base, ast.Name):
          if c.func.attr == 'sort':
            key = next((k.value for k in c.keywords if k.arg == 'key'), None)
            self.sorts.setdefault(base.id, []).append((st.lineno, key, st))
          elif c.func.attr in ACCUMULATE or c.func.attr == 'insert':
            self.appends.setdefault(base.id, []).append((st.lineno, st))

  def _close_ns_names(self):
    """Names that hold an input-derived NoteSequence: parameters, copies."""
    changed = True
    while changed:
      changed = False
      for name, ds in self.defs.items():
        if name in self.ns_names:
          continue
        for (_ln, val, _st) in ds:
          if val is None:
            continue
          if isinstance(val, ast.Name) and val.id in self.ns_names:
            self.ns_names.add(name)
            changed = True
          elif isinstance(val, ast.Call) and dotted(val.func) in ('copy.deepcopy', 'copy.copy') and val.args and \
              isinstance(val.args[0], ast.Name) and val.args[0].id in self.ns_names:
            self.ns_names.add(name)
            changed = True
      for st in self.body_stmts:
        if isinstance(st, ast.Expr) and isinstance(st.value, ast.Call) and isinstance(st.value.func, ast.Attribute) and \
            st.value.func.attr in ('CopyFrom', 'MergeFrom') and isinstance(st.value.func.value, ast.Name) and st.value.args and \
            isinstance(st.value.args[0], ast.Name) and st.value.args[0].id in self.ns_names:
          n = st.value.func.value.id
          if n not in self.ns_names:
            self.ns_names.add(n)
            changed = True

  # ---------------------------------------------------------------- provenance
  def is_storage_attr(self, node):
    return (isinstance(node, ast.Attribute) and node.attr in PERMUTABLE and isinstance(node.value, ast.Name) and
            node.value.id in self.ns_names)

  def sort_key_ok(self, key, src=None):
    """Does the sort key start with a time/step field of the element?  True / False / 'tuple:<i>' / 'unknown'."""
    if key is None:
      return False
    d = dotted(key.func) if isinstance(key, ast.Call) else None
    if isinstance(key, ast.Name):
      # a named key function: a local or module-level def with a single return, or a name bound once to a lambda
      defs = [n for n in ast.walk(self.fn) if isinstance(n, ast.FunctionDef) and n.name == key.id and n is not self.fn]
      if not defs and getattr(self.fi, 'module', None) is not None and key.id in self.fi.module.functions:
        defs = [self.fi.module.functions[key.id].node]
      lambdas = [s.value for s in ast.walk(self.fn) if isinstance(s, ast.Assign) and len(s.targets) == 1 and isinstance(s.targets[0], ast.Name) and
                 s.targets[0].id == key.id and isinstance(s.value, ast.Lambda)]
      if len(defs) == 1 and not lambdas:
        body = [b for b in defs[0].body if not (isinstance(b, ast.Expr) and isinstance(b.value, ast.Constant))]
        if len(body) == 1 and isinstance(body[0], ast.Return) and body[0].value is not None:
          return self.sort_key_ok(ast.Lambda(args=defs[0].args, body=body[0].value))
      if len(lambdas) == 1 and not defs:
        return self.sort_key_ok(lambdas[0])
      getters = [s.value for s in ast.walk(self.fn) if isinstance(s, ast.Assign) and len(s.targets) == 1 and isinstance(s.targets[0], ast.Name) and
                 s.targets[0].id == key.id and isinstance(s.value, ast.Call) and (dotted(s.value.func) or '').split('.')[-1] in ('attrgetter', 'itemgetter')]
      if len(getters) == 1 and not defs and not lambdas:
        return self.sort_key_ok(getters[0])
      return 'unknown'
    if isinstance(key, ast.Lambda):
      body = key.body
      first = body.elts[0] if isinstance(body, ast.Tuple) and body.elts else body
      params = [a.arg for a in key.args.args]
      if isinstance(first, ast.Subscript) and isinstance(first.value, ast.Name) and first.value.id in params and \
          isinstance(U.const_value(first.slice), int):
        return 'tuple:%r' % (U.const_value(first.slice),)
      if not _is_time_expr(first, params) and isinstance(body, ast.Tuple) and len(body.elts) > 1:
        # grouped first (by instrument, say), then by time: whether the consumer keeps separate state per group is not read here
        return 'unknown'
      return _is_time_expr(first, params)
    if d in ('operator.attrgetter', 'attrgetter') and key.args and isinstance(key.args[0], ast.Constant):
      return key.args[0].value in TIME_KEYS
    if d in ('operator.itemgetter', 'itemgetter') and key.args and isinstance(key.args[0], ast.Constant):
      # tuples: position must hold a time expression in every producer of the list
      return 'tuple:%r' % (key.args[0].value,)
    return False

  def prov(self, node, at, depth=0):
    if depth > 12:
      return OTHER
    if self.is_storage_attr(node):
      return Prov('STORAGE', node.attr)
    if isinstance(node, ast.Name):
      return self._prov_name(node.id, at, depth)
    if isinstance(node, ast.Call):
      d = dotted(node.func) or ''
      if d == 'sorted' and node.args:
        src = self.prov(node.args[0], at, depth + 1)
        key = next((k.value for k in node.keywords if k.arg == 'key'), None)
        if src.kind not in ('STORAGE', 'BADSORT'):
          return Prov('SORTED', 'of non-storage') if src.kind == 'SORTED' else OTHER
        ok = self.sort_key_ok(key)
        if ok is True:
          return Prov('SORTED', norm_text(key))
        if isinstance(ok, str) and ok.startswith('tuple:'):
          tp = self._tuple_position_is_time(node.args[0], int(ok.split(':')[1]), at)
          if tp:
            return Prov('SORTED', norm_text(key))
          if tp is None:
            return Prov('BADSORT', UNK + 'sorted() by tuple position %s of elements whose producers could not be determined' % ok.split(':')[1])
        if key is None:
          tt = self._elements_are_time_tuples(node.args[0], at)
          if tt:
            return Prov('SORTED', 'natural order of (time, ...) tuples')
          if tt is None and not self.is_storage_attr(node.args[0]):
            return Prov('BADSORT', UNK + 'sorted() without a key over elements whose producers could not be determined')
        if ok == 'unknown':
          return Prov('BADSORT', UNK + 'sorted() of storage-ordered data with key %s, which could not be resolved to its fields' % norm_text(key))
        return Prov('BADSORT', 'sorted() of storage-ordered data with key %s that does not start with a time/step field' % (
            norm_text(key) if key is not None else 'None'))
      if d in ORDER_PRESERVING:
        args = list(node.args)
        ps = []
        for a in args:
          if isinstance(a, ast.Starred):
            ps.append(self._prov_display_elems(a.value, at, depth))
          else:
            ps.append(self.prov(a, at, depth + 1))
        return _join(ps)
      if isinstance(node.func, ast.Attribute) and node.func.attr in ('items', 'values', 'keys'):
        b = node.func.value
        if isinstance(b, ast.Name) and self.accum.get(b.id) == 'dict':
          return Prov('OTHER', 'dict:' + b.id)
      if isinstance(node.func, ast.Name) and node.func.id in self.fi.module.functions:
        # a helper of the same module handed storage-ordered data: the order of what it returns is whatever the helper makes of it
        for a in node.args:
          pa = self.prov(a.value if isinstance(a, ast.Starred) else a, at, depth + 1)
          if pa.kind in ('STORAGE', 'BADSORT'):
            return Prov('BADSORT', UNK + 'the order of the result of %s(...) over storage-ordered data (%s) is decided inside that helper' % (node.func.id, pa.detail[:60]))
      return OTHER
    if isinstance(node, (ast.ListComp, ast.GeneratorExp, ast.SetComp)):
      if isinstance(node, ast.SetComp):
        return OTHER
      return _join([self.prov(g.iter, at, depth + 1) for g in node.generators])
    if isinstance(node, ast.Subscript):
      if isinstance(node.slice, ast.Slice):
        return self.prov(node.value, at, depth + 1)
      return OTHER
    if isinstance(node, ast.BinOp) and isinstance(node.op, ast.Add):
      return _join([self.prov(node.left, at, depth + 1), self.prov(node.right, at, depth + 1)])
    if isinstance(node, ast.BoolOp):
      return _join([self.prov(v, at, depth + 1) for v in node.values])
    if isinstance(node, ast.IfExp):
      return _join([self.prov(node.body, at, depth + 1), self.prov(node.orelse, at, depth + 1)])
    if isinstance(node, ast.Starred):
      return self.prov(node.value, at, depth + 1)
    return OTHER

  def _prov_display_elems(self, node, at, depth):
    """provenance of the elements of a display / name bound to a display"""
    if isinstance(node, (ast.List, ast.Tuple)):
      return _join([self.prov(e, at, depth + 1) for e in node.elts])
    if isinstance(node, ast.Name):
      ps = []
      for (ln, val, st) in self.defs.get(node.id, []):
        if val is not None and isinstance(val, (ast.List, ast.Tuple)):
          ps.append(_join([self.prov(e, st, depth + 1) for e in val.elts]))
        elif val is not None:
          ps.append(self.prov(val, st, depth + 1))
      return _join(ps)
    return self.prov(node, at, depth + 1)

  def _prov_name(self, name, at, depth):
    at_line = getattr(at, 'lineno', 10 ** 9)
    if name in self.extra_storage:
      return Prov('STORAGE', 'parameter ' + name)
    ds = [(ln, val, st) for (ln, val, st) in self.defs.get(name, []) if ln <= at_line]
    # a plain re-binding in the function's own statement list, with nothing appended afterwards, replaces whatever the name held before
    top = [(ln, val, st) for (ln, val, st) in ds if val is not None and ln < at_line and any(st is b for b in self.fn.body)]
    if top:
      ln0, val0, st0 = max(top, key=lambda t: t[0])
      later = [l for (l, _v, _s) in ds if l > ln0] + [l for (l, _s) in self.appends.get(name, []) if ln0 < l < at_line] + \
              [f.lineno for f in self.for_targets.get(name, []) if ln0 < f.lineno <= at_line]
      if not later:
        p0 = self.prov(val0, st0, depth + 1)
        if p0.kind == 'BADSORT' and p0.detail.startswith(UNK):
          return p0
    ps = []
    last_def = max([ln for (ln, _v, _s) in ds], default=0)
    for (ln, val, st) in ds:
      if val is not None:
        ps.append(self.prov(val, st, depth + 1))
    # for-loop targets: element of a display of containers / values of an accumulated dict
    for f in self.for_targets.get(name, []):
      if f.lineno <= at_line:
        ps.append(self._prov_for_target(name, f, depth))
    if name in self.accum and self.accum[name] == 'list':
      ps.append(Prov('STORAGE', 'list %s accumulated in a storage-order loop' % name))
    p = _join(ps)
    # in-place sort after the last definition and before the use
    if p.kind in ('STORAGE', 'BADSORT'):
      for (ln, key, st) in self.sorts.get(name, []):
        if last_def <= ln < at_line and any(ln < l2 < at_line for (l2, _s) in self.appends.get(name, [])) and self.sort_key_ok(key) is not False:
          # sorted by time, then something is appended (a closing sentinel, say): whether the appended element keeps the order is not read
          return Prov('BADSORT', UNK + '%s is sorted and then appended to before it is traversed' % name)
        if last_def <= ln < at_line and not any(ln < l2 < at_line for (l2, _s) in self.appends.get(name, [])):
          ok = self.sort_key_ok(key)
          tp = self._tuple_position_is_time(ast.Name(id=name, ctx=ast.Load()), int(ok.split(':')[1]), st) if (isinstance(ok, str) and ok.startswith('tuple:')) else False
          if ok is True or tp:
            return Prov('SORTED', norm_text(key))
          if ok == 'unknown' or tp is None:
            return Prov('BADSORT', UNK + '.sort() with key %s, whose fields / tuple producers could not be resolved' % (norm_text(key) if key is not None else 'None'))
          return Prov('BADSORT', '.sort() with key %s that does not start with a time/step field' % (norm_text(key) if key is not None else 'None'))
    return p

  def _prov_for_target(self, name, f, depth):
    # `for events in [ns.a, ns.b]` / `for events, containers in zip(display, ...)`
    it = f.iter
    pos = None
    if isinstance(f.target, (ast.Tuple, ast.List)):
      for i, e in enumerate(f.target.elts):
        if isinstance(e, ast.Name) and e.id == name:
          pos = i
    srcs = []
    if isinstance(it, ast.Call) and dotted(it.func) in ('zip', 'itertools.izip') and pos is not None and pos < len(it.args):
      srcs = [it.args[pos]]
    elif pos is None:
      srcs = [it]
    else:
      # tuple target over something else (dict items, enumerate): values of accumulated dicts
      names = U.names_in(it)
      for n in names:
        if self.accum.get(n) == 'dict' or any(self.accum.get(m) == 'dict' for m in self._name_sources(n)):
          return Prov('STORAGE', 'lists accumulated per key in a storage-order loop (%s)' % n)
      if isinstance(it, ast.Call) and dotted(it.func) == 'enumerate' and it.args and pos == 1:
        return self._elem_of(it.args[0], f, depth)
      return OTHER
    return _join([self._elem_of(s, f, depth) for s in srcs])

  def _name_sources(self, name, seen=None):
    seen = seen or set()
    out = set()
    for (_ln, val, _st) in self.defs.get(name, []):
      if val is None:
        continue
      for n in U.names_in(val):
        if n not in seen:
          seen.add(n)
          out.add(n)
          out |= self._name_sources(n, seen)
    return out

  def _elem_of(self, node, at, depth):
    """Provenance of an *element* of `node` when elements are themselves
    containers (display of repeated fields)."""
    if isinstance(node, (ast.List, ast.Tuple)):
      return _join([self.prov(e, at, depth + 1) for e in node.elts])
    if isinstance(node, ast.Name):
      ps = []
      for (_ln, val, st) in self.defs.get(node.id, []):
        if val is not None:
          ps.append(self._elem_of(val, st, depth + 1))
      return _join(ps)
    return OTHER

  def _list_producers(self, node, at):
    """Expressions that produce the elements of list `node` (a Name)."""
    out = []
    if isinstance(node, ast.BinOp) and isinstance(node.op, ast.Add):
      return self._list_producers(node.left, at) + self._list_producers(node.right, at)
    if isinstance(node, (ast.ListComp, ast.GeneratorExp)):
      return [node.elt]
    if isinstance(node, ast.List):
      return list(node.elts)
    if isinstance(node, ast.Name):
      for (_ln, val, st) in self.defs.get(node.id, []):
        if val is not None:
          out.extend(self._list_producers(val, st))
      for (_ln, st) in self.appends.get(node.id, []):
        c = st.value
        if c.func.attr in ('append', 'add') and c.args:
          out.append(c.args[0])
        elif c.func.attr == 'extend' and c.args:
          out.extend(self._list_producers(c.args[0], st))
      return out
    return [None]

  def _tuple_position_is_time(self, node, pos, at):
    """True: every producer of the list is a tuple whose element `pos` is a time; False: some producer is a tuple whose element
    `pos` is not; None: the producers (or their shape) could not be determined."""
    prods = self._list_producers(node, at)
    if not prods:
      return None
    unknown = False
    for p in prods:
      if not (isinstance(p, ast.Tuple) and len(p.elts) > pos):
        unknown = True
        continue
      e = p.elts[pos]
      if isinstance(e, ast.Name):
        # a local: every value it is bound to must be a time (a time read once into a variable); no binding found: unknown
        vals = [val for (_ln, val, _st) in self.defs.get(e.id, [])]
        if vals and all(v is not None and _is_time_expr(v, None) for v in vals):
          continue
        if not vals or any(v is None for v in vals):
          unknown = True
          continue
        return False
      if not _is_time_expr(e, None):
        return False
    return None if unknown else True

  def _elements_are_time_tuples(self, node, at):
    return self._tuple_position_is_time(node, 0, at)

  # ---------------------------------------------------------------- analysis
  def run(self):
    # pass 1: find storage-order loops that accumulate into local lists / dicts (to a fixpoint)
    for _ in range(4):
      before = dict(self.accum)
      for st in self.body_stmts:
        if isinstance(st, (ast.For, ast.AsyncFor)):
          p = self.prov(st.iter, st)
          if p.kind in ('STORAGE', 'BADSORT'):
            for sub in U.walk_stmts(st):
              if isinstance(sub, ast.Expr) and isinstance(sub.value, ast.Call) and isinstance(sub.value.func, ast.Attribute) and \
                  sub.value.func.attr in ACCUMULATE:
                recv = sub.value.func.value
                if isinstance(recv, ast.Name) and not self._is_ns_rooted(recv):
                  self.accum.setdefault(recv.id, 'list')
                else:
                  ch = recv
                  nsub = 0
                  while isinstance(ch, ast.Subscript):
                    ch = ch.value
                    nsub += 1
                  if isinstance(ch, ast.Name) and nsub and ch.id not in self.ns_names and not self._derived_from_ns(ch.id):
                    self.accum[ch.id] = 'dict'
      if self.accum == before:
        break
    # pass 2: classify
    for st in self.body_stmts:
      if isinstance(st, (ast.For, ast.AsyncFor)):
        p = self.prov(st.iter, st)
        if p.kind in ('STORAGE', 'BADSORT'):
          reasons = self.classify_loop(st)
          if p.kind == 'BADSORT' and reasons:
            reasons = [p.detail] + reasons
          self.sites.append(Site('traversal', st.iter, st, p, reasons, 'for %s in %s' % (norm_text(st.target), norm_text(st.iter))))
        elif p.kind == 'SORTED' and p.detail != 'of non-storage':
          self.sites.append(Site('sorted-traversal', st.iter, st, p, [], 'for %s in %s' % (norm_text(st.target), norm_text(st.iter))))
    for st in self.body_stmts:
      for node in _own_exprs(st):
        for sub in ast.walk(node):
          if isinstance(sub, (ast.ListComp, ast.GeneratorExp, ast.SetComp, ast.DictComp)):
            p = _join([self.prov(g.iter, st) for g in sub.generators])
            if p.kind in ('STORAGE', 'BADSORT'):
              reasons = self.classify_comp(sub, st)
              self.sites.append(Site('traversal', sub, st, p, reasons, norm_text(sub)))
          elif isinstance(sub, ast.Subscript) and isinstance(sub.ctx, ast.Load):
            p = self.prov(sub.value, st)
            if isinstance(sub.slice, ast.Constant) and isinstance(sub.slice.value, str):
              continue      # a lookup by string key is not a positional read
            if p.kind in ('STORAGE', 'BADSORT') and not isinstance(sub.value, ast.Subscript):
              if self._just_added_idiom(sub, st):
                self.sites.append(Site('positional', sub, st, p, [], norm_text(sub)))
              else:
                self.sites.append(Site('positional', sub, st, p,
                                       ['positional read %s of storage-ordered %s' % (norm_text(sub), p.detail)], norm_text(sub)))
          elif isinstance(sub, ast.Subscript) and isinstance(sub.ctx, (ast.Store, ast.Del)):
            p = self.prov(sub.value, st)
            if p.kind in ('STORAGE', 'BADSORT') and self.is_storage_attr(sub.value):
              whole = isinstance(sub.slice, ast.Slice) and sub.slice.lower is None and sub.slice.upper is None
              self.sites.append(Site('positional', sub, st, p,
                                     [] if whole else ['positional %s %s of storage-ordered %s' % (
                                         'delete' if isinstance(sub.ctx, ast.Del) else 'store', norm_text(sub), p.detail)],
                                     norm_text(sub)))
    return self.sites

  def _is_ns_rooted(self, node):
    ch = node
    while isinstance(ch, (ast.Attribute, ast.Subscript)):
      ch = ch.value
    return isinstance(ch, ast.Name) and ch.id in self.ns_names

  def _derived_from_ns(self, name):
    for (_ln, val, _st) in self.defs.get(name, []):
      if val is not None and self._is_ns_rooted(val):
        return True
    return False

  def _just_added_idiom(self, sub, st):
    """X[-1] right after X.extend([e]) / X.append(e) / X.add(): the element just added."""
    if U.const_value(sub.slice) != -1:
      return False
    xtxt = norm_text(sub.value)
    blk = self._block_of(st)
    if blk is None:
      return False
    idx = next(i for i, s in enumerate(blk) if s is st)
    for prev in reversed(blk[:idx + 1]):
      if isinstance(prev, ast.Expr) and isinstance(prev.value, ast.Call) and isinstance(prev.value.func, ast.Attribute) and \
          prev.value.func.attr in ('extend', 'append', 'add') and norm_text(prev.value.func.value) == xtxt:
        return True
      if prev is not st and isinstance(prev, (ast.Delete,)):
        return False
    return False

  def _block_of(self, st):
    p = U.parent(self.fn, st)
    if p is None:
      return None
    for field in ('body', 'orelse', 'finalbody'):
      v = getattr(p, field, None)
      if isinstance(v, list) and any(x is st for x in v):
        return v
    return None

  # ---- comprehension consumers
  def classify_comp(self, comp, st):
    par = U.parent(self.fn, comp)
    child = comp
    while isinstance(par, (ast.BoolOp, ast.IfExp, ast.Starred)):
      child = par
      par = U.parent(self.fn, par)
    if isinstance(comp, (ast.SetComp, ast.DictComp)):
      return [] if isinstance(comp, ast.SetComp) else self._dictcomp(comp)
    if isinstance(par, ast.Call):
      d = dotted(par.func) or ''
      if d in INSENSITIVE_CONSUMERS:
        return []
      if d in ORDER_PRESERVING or d in ('numpy.array', 'np.array'):
        return self._flow_of_value(par, st)
      if isinstance(par.func, ast.Attribute) and par.func.attr in ACCUMULATE and child in par.args:
        return []   # bag accumulation of the produced elements
      if d == 'sorted' or (isinstance(par.func, ast.Attribute) and par.func.attr == 'join'):
        return [] if d == 'sorted' else ['storage-ordered elements joined into a string']
      if d in ORDER_ASSUMING:
        return ['storage-ordered sequence passed to %s, which %s' % (d, ORDER_ASSUMING[d])]
      return [UNK + 'storage-ordered sequence passed to %s, whose order sensitivity is unknown' % (d or norm_text(par.func))]
    return self._flow_of_value(child, st)

  def _dictcomp(self, comp):
    return ['dict comprehension over storage order: later entries overwrite earlier ones with the same key']

  def _flow_of_value(self, node, st):
    """Where a storage-ordered list value goes: name binding (tracked by prov),
    return (multiset result), display element (tracked), else unknown."""
    par = U.parent(self.fn, node)
    while isinstance(par, (ast.BoolOp, ast.IfExp, ast.Starred, ast.List, ast.Tuple)):
      node = par
      par = U.parent(self.fn, par)
    if isinstance(par, (ast.Assign, ast.AnnAssign)):
      tg = par.targets if isinstance(par, ast.Assign) else [par.target]
      if all(isinstance(t, ast.Name) for t in tg):
        return []
      return ['storage-ordered list stored into %s' % norm_text(tg[0])]
    if isinstance(par, ast.Return):
      return []
    if isinstance(par, ast.Call):
      d = dotted(par.func) or ''
      if d in INSENSITIVE_CONSUMERS or d in ORDER_PRESERVING:
        return [] if d in INSENSITIVE_CONSUMERS else self._flow_of_value(par, st)
      if isinstance(par.func, ast.Attribute) and par.func.attr in ACCUMULATE:
        return []
      if d in ORDER_ASSUMING:
        return ['storage-ordered sequence passed to %s, which %s' % (d, ORDER_ASSUMING[d])]
      return [UNK + 'storage-ordered sequence passed to %s, whose order sensitivity is unknown' % (d or norm_text(par.func))]
    if isinstance(par, ast.comprehension) or isinstance(par, (ast.For,)):
      return []   # it is itself traversed: that traversal is classified on its own
    if isinstance(par, ast.Compare):
      return []
    if isinstance(par, ast.Expr):
      return []
    if isinstance(par, ast.keyword):
      call = U.parent(self.fn, par)
      return [UNK + 'storage-ordered sequence passed as %s= to %s' % (par.arg, norm_text(call.func) if isinstance(call, ast.Call) else '?')]
    return [UNK + 'storage-ordered sequence flows to %s' % type(par).__name__]

  # ---- loop bodies
  def classify_loop(self, loop):
    reasons = []
    body = loop.body
    targets = set(n.id for n in ast.walk(loop.target) if isinstance(n, ast.Name))
    assigned = _assigned_names(body)
    ue, _must = _upward_exposed(body, set())
    after = self._reads_after(loop)
    carried = set(n for n in assigned if (n in ue or n in after) and n not in targets)
    # loop targets read after the loop: "last element" dependence
    for t in targets:
      if t in after and not self._rebound_after(loop, t):
        reasons.append('loop variable %s is read after the loop (last element in storage order)' % t)
    own = set(targets)
    own |= self._fresh_temps(body, own)
    stores = []   # (base name, target text, value node, stmt)
    mutated = {}  # base name -> how
    const_stores = {}
    for st in U.walk_stmts(_Body(body)):
      if isinstance(st, (ast.Assign, ast.AugAssign, ast.AnnAssign)):
        for tgt, val, op in U.store_targets(st):
          if isinstance(tgt, ast.Name):
            if tgt.id in carried:
              par = U.parent(self.fn, st)
              if isinstance(par, ast.If) and any(isinstance(x, ast.Break) and self._find_unique(loop, x) for x in par.body):
                continue
              if par is loop and any(isinstance(x, ast.Break) and self._find_unique(loop, x) for x in loop.body):
                continue
              if op == 'store' and isinstance(val, ast.Constant):
                const_stores.setdefault(tgt.id, set()).add(repr(val.value))
              elif not _is_reduction(st, tgt.id, op, val, self.fn):
                reasons.append('variable %s is carried between iterations and updated non-commutatively (%s)' % (tgt.id, norm_text(st)))
          elif isinstance(tgt, (ast.Attribute, ast.Subscript)):
            b = _base_name(tgt)
            if b is None or b in own:
              continue
            stores.append((b, tgt, val, st, op))
            mutated.setdefault(b, 'store')
      elif isinstance(st, ast.Expr) and isinstance(st.value, ast.Call):
        c = st.value
        d = dotted(c.func) or ''
        if isinstance(c.func, ast.Attribute):
          b = _base_name(c.func.value)
          if b is not None and b not in own and not d.startswith(LOG_PREFIX):
            if c.func.attr in ACCUMULATE or c.func.attr in ('insert', 'setdefault', 'CopyFrom', 'MergeFrom'):
              mutated.setdefault(b, 'accumulate')
            elif self._is_module_name(b):
              pass
            else:
              mutated[b] = 'opaque call %s' % norm_text(c.func)
      elif isinstance(st, ast.Delete):
        for t in st.targets:
          b = _base_name(t)
          if b is not None and b not in own:
            reasons.append('deletes from shared object %s inside a storage-order loop' % b)
      elif isinstance(st, ast.Break):
        if not self._find_unique(loop, st):
          reasons.append('break: which elements are processed depends on storage order')
      elif isinstance(st, ast.Return):
        if st.value is not None and not isinstance(st.value, ast.Constant):
          reasons.append('return of an element-dependent value from inside a storage-order loop (first match wins)')
    for n, cs in const_stores.items():
      if len(cs) > 1:
        reasons.append('variable %s is carried between iterations and set to different constants (%s): the last writer wins' % (n, ', '.join(sorted(cs))))
    # shared stores
    by_target = {}
    for (b, tgt, val, st, op) in stores:
      by_target.setdefault((b, _store_key(tgt)), []).append((tgt, val, st, op))
    for (b, k), lst in by_target.items():
      for (tgt, val, st, op) in lst:
        ttxt = norm_text(tgt)
        if op != 'store':
          if op in ('aug:Add', 'aug:Sub', 'aug:BitOr', 'aug:BitAnd') and isinstance(tgt, ast.Attribute):
            continue
          if op in ('aug:Add', 'aug:Sub') and isinstance(tgt, ast.Subscript):
            continue   # histogram accumulation
          reasons.append('augmented store %s into shared object is not commutative' % norm_text(st))
          continue
        vtxt = norm_text(val) if val is not None else ''
        # conditions that hold at the store: enclosing tests and the negations of earlier early exits (if not e > v: continue)
        tests = U.path_conditions(self.fn, st, stop_at=loop)
        if any(U.is_gt_guard(tp, vtxt, ttxt) or _is_lt_guard(tp, vtxt, ttxt) for tp in tests):
          continue   # guarded max / min reduction
        if isinstance(val, ast.Call) and dotted(val.func) in ('max', 'min') and any(norm_text(a) == ttxt for a in val.args):
          continue
        if val is not None and U.const_value(val) is not None or isinstance(val, ast.Constant):
          # idempotent only if every store into this base within the loop writes the same constant
          consts = set()
          for (b2, k2), l2 in by_target.items():
            if b2 == b:
              for (_t2, v2, _s2, _o2) in l2:
                consts.add(norm_text(v2) if v2 is not None else '?')
          if len(consts) == 1:
            continue
          reasons.append('different values (%s) are stored into overlapping cells of shared %s: the last writer wins' % (
              ', '.join(sorted(consts)), b))
          continue
        reasons.append('element-dependent value is stored into shared %s (%s): last writer in storage order wins' % (b, norm_text(st)))
    # reads of loop-mutated shared objects through calls
    for st in U.walk_stmts(_Body(body)):
      for node in _own_exprs(st):
        for c in ast.walk(node):
          if not isinstance(c, ast.Call):
            continue
          d = dotted(c.func) or ''
          if isinstance(c.func, ast.Attribute):
            b = _base_name(c.func.value)
            if b in mutated and b not in own and c.func.attr not in ACCUMULATE and c.func.attr not in ('insert', 'setdefault', 'CopyFrom', 'MergeFrom', 'get'):
              if mutated[b] != 'store' or True:
                how = mutated[b]
                if how == 'store' and not any(_base_name(t) == b for (b2, t, _v, _s, _o) in stores if isinstance(t, ast.Attribute)):
                  continue
                reasons.append('%s is called on %s, which this loop also mutates (%s): the value read depends on the iterations already done' % (
                    norm_text(c.func), b, how))
    # de-duplicate
    out = []
    for r in reasons:
      if r not in out:
        out.append(r)
    return out

  def _is_module_name(self, b):
    return b in self.fi.module.imports

  def _rebound_after(self, loop, name):
    """Is `name` re-assigned after the loop before any read? (approximation: any def after)"""
    end = getattr(loop, 'end_lineno', loop.lineno)
    return any(ln > end for (ln, _v, _s) in self.defs.get(name, [])) or \
        any(f.lineno > end for f in self.for_targets.get(name, []))

  def _reads_after(self, loop):
    """Names whose value at the end of the loop may still be read afterwards: names that are upward-exposed (read before being
    definitely re-assigned) in the code that follows the loop.  A later loop that assigns the same name at the top of every
    iteration before reading it - a per-iteration temporary that happens to be called the same - does not read it."""
    names = set()
    outer = [a for a in U.ancestors(self.fn, loop) if isinstance(a, (ast.For, ast.While))]
    if outer:
      # inside another loop the code before it runs again: keep the conservative answer
      end = getattr(loop, 'end_lineno', loop.lineno)
      for st in self.body_stmts:
        if st.lineno > end or any(st is not loop and _contains(o, st) and not _contains(loop, st) for o in outer):
          for node in _own_exprs(st):
            names |= _loads(node)
      return names
    # the continuation of the loop: the statements after it in its block, then after its parent in the parent's block, ...
    rest = []
    child = loop
    cur = U.parent(self.fn, loop)
    while cur is not None:
      for field in ('body', 'orelse', 'finalbody'):
        blk = getattr(cur, field, None)
        if isinstance(blk, list) and any(x is child for x in blk):
          i = [k for k, x in enumerate(blk) if x is child][0]
          rest.extend(blk[i + 1:])
      if cur is self.fn:
        break
      child, cur = cur, U.parent(self.fn, cur)
    ue, _d = _upward_exposed(rest, set())
    return ue

  def _fresh_temps(self, body, own):
    """Names bound in the body to objects created in this iteration or to
    sub-objects of the element."""
    fresh = set()
    changed = True
    while changed:
      changed = False
      for st in U.walk_stmts(_Body(body)):
        if isinstance(st, ast.Assign) and len(st.targets) == 1 and isinstance(st.targets[0], ast.Name):
          n = st.targets[0].id
          if n in fresh:
            continue
          v = st.value
          if _is_fresh_expr(v, own | fresh):
            fresh.add(n)
            changed = True
    return fresh

  def _find_unique(self, loop, brk):
    """`if x.<time field> == const: v = x; break` - the searched element is unique
    by the property's precondition (no two state events of a kind share a time)."""
    par = U.parent(self.fn, brk)
    if par is loop:
      # the same search written with an early exit:  if not (x.<time> == const): continue;  v = x;  break
      tests = [(t, p) for t, p in U.path_conditions(self.fn, brk, stop_at=loop)]
      uniq = False
      for t, p in tests:
        c = U.compare_nf(t, p)
        if c is not None and c[1] == '==' and ((c[0] in TIME_KEYS) != (c[2] in TIME_KEYS)):
          uniq = True
      if not uniq:
        return False
      for s in loop.body:
        if s is brk or (isinstance(s, ast.If) and not s.orelse and len(s.body) == 1 and isinstance(s.body[0], ast.Continue)):
          continue
        if not (isinstance(s, ast.Assign) and isinstance(s.targets[0], ast.Name)):
          return False
      return True
    if not isinstance(par, ast.If) or par.orelse:
      return False
    c = U.compare_nf(par.test)
    if c is None or c[1] != '==':
      return False
    if not ((c[0] in TIME_KEYS) != (c[2] in TIME_KEYS)):
      return False
    for s in par.body:
      if s is brk:
        continue
      if not (isinstance(s, ast.Assign) and isinstance(s.targets[0], ast.Name)):
        return False
    return True


class _Body:
  """Adapter so walk_stmts can walk a statement list."""

  def __init__(self, body):
    self.body = body


def _contains(outer, node):
  return any(n is node for n in ast.walk(outer))


def _own_exprs(st):
  """Expression nodes belonging to statement st itself (not to nested statements)."""
  for field, value in ast.iter_fields(st):
    if field in ('body', 'orelse', 'finalbody', 'handlers'):
      continue
    if isinstance(value, ast.AST):
      yield value
    elif isinstance(value, list):
      for v in value:
        if isinstance(v, ast.AST) and not isinstance(v, ast.stmt):
          yield v


def _is_time_expr(node, params):
  if isinstance(node, ast.Attribute) and node.attr in TIME_KEYS:
    return True
  if isinstance(node, ast.Call) and isinstance(node.func, ast.Name) and node.func.id in ('note_start', 'note_end'):
    return True
  return False


def _base_name(node):
  while isinstance(node, (ast.Attribute, ast.Subscript)):
    node = node.value
  if isinstance(node, ast.Call):
    return _base_name(node.func) if isinstance(node.func, ast.Attribute) else None
  return node.id if isinstance(node, ast.Name) else None


def _store_key(tgt):
  if isinstance(tgt, ast.Subscript):
    return 'sub:' + norm_text(tgt.value)
  return norm_text(tgt)


def _is_lt_guard(test_pol, vtxt, total_txt):
  test, pol = test_pol
  c = U.compare_full(test, pol)
  return c is not None and c[1] == '<' and c[0] == vtxt and c[2] == total_txt


def _is_fresh_expr(v, own):
  if isinstance(v, ast.Call):
    d = dotted(v.func) or ''
    if isinstance(v.func, ast.Attribute) and v.func.attr == 'add':
      return True
    last = d.split('.')[-1] if d else ''
    if last[:1].isupper():
      return True   # constructor
    if d in ('copy.deepcopy', 'dict', 'list', 'set', 'collections.defaultdict', 'tuple'):
      return True
    return False
  if isinstance(v, (ast.List, ast.Dict, ast.Set, ast.Tuple, ast.ListComp, ast.DictComp, ast.SetComp)):
    return True
  b = _base_name(v) if isinstance(v, (ast.Attribute, ast.Subscript)) else (v.id if isinstance(v, ast.Name) else None)
  if b is not None and b in own and isinstance(v, (ast.Attribute, ast.Name)):
    return True
  return False


def _assigned_names(body):
  out = set()
  for st in U.walk_stmts(_Body(body)):
    if isinstance(st, (ast.Assign, ast.AugAssign, ast.AnnAssign)):
      for tgt, _v, _o in U.store_targets(st):
        if isinstance(tgt, ast.Name):
          out.add(tgt.id)
    elif isinstance(st, (ast.For, ast.AsyncFor)):
      for n in ast.walk(st.target):
        if isinstance(n, ast.Name):
          out.add(n.id)
    elif isinstance(st, ast.With):
      for it in st.items:
        if it.optional_vars is not None:
          for n in ast.walk(it.optional_vars):
            if isinstance(n, ast.Name):
              out.add(n.id)
  return out


def _loads(node):
  """Names read by an expression, excluding comprehension-local targets."""
  out = set()
  if node is None:
    return out
  local = set()
  for n in ast.walk(node):
    if isinstance(n, ast.comprehension):
      for t in ast.walk(n.target):
        if isinstance(t, ast.Name):
          local.add(t.id)
    if isinstance(n, ast.Lambda):
      for a in n.args.args:
        local.add(a.arg)
  for n in ast.walk(node):
    if isinstance(n, ast.Name) and isinstance(n.ctx, ast.Load) and n.id not in local:
      out.add(n.id)
  return out


def _upward_exposed(stmts, defined):
  """(names that may be read before being written, names definitely written)
  for one execution of the statement list."""
  ue = set()
  defined = set(defined)
  for st in stmts:
    if isinstance(st, (ast.Assign, ast.AnnAssign)):
      ue |= _loads(st.value) - defined
      tg = st.targets if isinstance(st, ast.Assign) else [st.target]
      for t in tg:
        if isinstance(t, ast.Name):
          defined.add(t.id)
        elif isinstance(t, (ast.Tuple, ast.List)):
          for e in t.elts:
            if isinstance(e, ast.Name):
              defined.add(e.id)
            else:
              ue |= _loads(e) - defined
        else:
          ue |= _loads(t) - defined
    elif isinstance(st, ast.AugAssign):
      ue |= _loads(st.value) - defined
      if isinstance(st.target, ast.Name):
        if st.target.id not in defined:
          ue.add(st.target.id)
        defined.add(st.target.id)
      else:
        ue |= _loads(st.target) - defined
    elif isinstance(st, ast.If):
      ue |= _loads(st.test) - defined
      u1, d1 = _upward_exposed(st.body, defined)
      u2, d2 = _upward_exposed(st.orelse, defined)
      ue |= u1 | u2
      # a branch that cannot fall through (continue/break/return/raise) does not constrain must-defs
      t1 = _terminates(st.body)
      t2 = _terminates(st.orelse) if st.orelse else False
      if t1 and not t2:
        defined = d2
      elif t2 and not t1:
        defined = d1
      else:
        defined = d1 & d2
    elif isinstance(st, (ast.For, ast.AsyncFor)):
      ue |= _loads(st.iter) - defined
      inner = set(defined)
      for n in ast.walk(st.target):
        if isinstance(n, ast.Name):
          inner.add(n.id)
      u1, _d1 = _upward_exposed(st.body, inner)
      ue |= u1
      u2, _d2 = _upward_exposed(st.orelse, defined)
      ue |= u2
    elif isinstance(st, ast.While):
      ue |= _loads(st.test) - defined
      u1, _d1 = _upward_exposed(st.body, defined)
      ue |= u1
    elif isinstance(st, ast.Try):
      u1, d1 = _upward_exposed(st.body, defined)
      ue |= u1
      for h in st.handlers:
        uh, _dh = _upward_exposed(h.body, defined)
        ue |= uh
      uo, _do = _upward_exposed(st.orelse, d1)
      ue |= uo
      uf, _df = _upward_exposed(st.finalbody, defined)
      ue |= uf
    elif isinstance(st, ast.With):
      for it in st.items:
        ue |= _loads(it.context_expr) - defined
        if it.optional_vars is not None:
          for n in ast.walk(it.optional_vars):
            if isinstance(n, ast.Name):
              defined.add(n.id)
      u1, d1 = _upward_exposed(st.body, defined)
      ue |= u1
      defined = d1
    elif isinstance(st, (ast.FunctionDef, ast.ClassDef)):
      defined.add(st.name)
    else:
      for node in _own_exprs(st):
        ue |= _loads(node) - defined
  return ue, defined


def _terminates(stmts):
  return bool(stmts) and isinstance(stmts[-1], (ast.Continue, ast.Break, ast.Return, ast.Raise))


def _is_reduction(st, name, op, val, fn):
  """Commutative / idempotent updates of a loop-carried variable."""
  if op in ('aug:Add', 'aug:Sub', 'aug:BitOr', 'aug:BitAnd', 'aug:Mult'):
    return name not in _loads(val)
  if op != 'store' or val is None:
    return False
  if isinstance(val, ast.Constant):
    return True     # set-only flag (all stores of one constant, or a flag that is only ever set)
  if isinstance(val, ast.Call) and dotted(val.func) in ('max', 'min') and any(isinstance(a, ast.Name) and a.id == name for a in val.args):
    return True
  if isinstance(val, ast.BoolOp) and any(isinstance(v, ast.Name) and v.id == name for v in val.values):
    return True
  if isinstance(val, ast.BinOp) and isinstance(val.op, (ast.Add, ast.BitOr, ast.Mult)) and \
      any(isinstance(s, ast.Name) and s.id == name for s in (val.left, val.right)):
    other = val.right if (isinstance(val.left, ast.Name) and val.left.id == name) else val.left
    return name not in _loads(other)
  # guarded max/min: if e > v: v = e
  vtxt = norm_text(val)
  for tp in U.path_conditions(fn, st):
    if U.is_gt_guard(tp, vtxt, name) or _is_lt_guard(tp, vtxt, name):
      return True
  return False
