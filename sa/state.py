"""Per-instance state rule.

A parser / event-sequence object accumulates state in attributes it mutates in
place (self._x[k] = v, self._x.append(..), self._x.field = ..).  If such an
attribute is bound to a mutable object in the *class body* and __init__ does not
rebind it per instance, every instance mutates the one shared object: the result
of one parse then depends on the parses that ran before it.  The rule is decided
per (class, attribute) from the class body and the method bodies alone."""
import ast

from . import astutil as U
from .loader import norm_text, dotted

_MUTABLE_CALLS = {'dict', 'list', 'set', 'bytearray', 'collections.defaultdict', 'collections.OrderedDict', 'collections.deque', 'collections.Counter',
                  'defaultdict', 'OrderedDict', 'deque', 'Counter'}


def _self_attr_root(node, self_name):
  """For an attribute/subscript chain rooted at self.<A>, return A."""
  cur = node
  last = None
  while isinstance(cur, (ast.Attribute, ast.Subscript)):
    last = cur
    cur = cur.value
  if isinstance(cur, ast.Name) and cur.id == self_name and isinstance(last, ast.Attribute):
    return last.attr
  return None


def mutable_value(v):
  if isinstance(v, (ast.Dict, ast.List, ast.Set, ast.ListComp, ast.DictComp, ast.SetComp)):
    return True
  if isinstance(v, ast.Call):
    d = dotted(v.func) or ''
    if d in _MUTABLE_CALLS:
      return True
    # a repository / protobuf object constructed in the class body is shared as well
    return d[:1].isupper() or '.' in d and d.split('.')[-1][:1].isupper()
  return False


# methods of the built-in containers: those that change the receiver, and those that only read it.  A call of any other
# method on self.A.… is not classified (the object may be of a repository class): the instance is then "cannot decide".
MUTATORS = {'append', 'extend', 'insert', 'remove', 'pop', 'clear', 'sort', 'reverse', 'add', 'discard', 'update', 'setdefault', 'popitem',
            'appendleft', 'extendleft', 'popleft', 'rotate', 'subtract', 'intersection_update', 'difference_update', 'symmetric_difference_update',
            '__setitem__', '__delitem__'}
READERS = {'get', 'keys', 'values', 'items', 'index', 'count', 'copy', 'most_common', 'elements', 'union', 'intersection', 'difference',
           'symmetric_difference', 'issubset', 'issuperset', 'isdisjoint', '__contains__', '__getitem__', '__len__', '__iter__',
           'startswith', 'endswith', 'split', 'join', 'format', 'lower', 'upper', 'strip', 'match', 'search', 'findall', 'finditer', 'fullmatch', 'sub'}


def mutated_attrs(ci, uncertain=None):
  """{A: first mutating node} for attributes mutated in place through self in any method.
  uncertain: optional dict that receives {A: node} for attributes on which only unclassified methods are called."""
  out = {}
  for m in ci.methods.values():
    ps = m.params()
    if not ps:
      continue
    me = ps[0]
    for n in ast.walk(m.node):
      roots = []
      if isinstance(n, (ast.Assign, ast.AugAssign, ast.AnnAssign, ast.Delete)):
        tg = n.targets if isinstance(n, (ast.Assign, ast.Delete)) else [n.target]
        for t in tg:
          for e in (t.elts if isinstance(t, (ast.Tuple, ast.List)) else [t]):
            # self.A = v is a rebinding, not a mutation; anything deeper mutates the object bound to self.A
            if isinstance(e, ast.Attribute) and isinstance(e.value, ast.Name) and e.value.id == me:
              continue
            a = _self_attr_root(e, me)
            if a:
              roots.append(a)
      elif isinstance(n, ast.Call) and isinstance(n.func, ast.Attribute):
        a = _self_attr_root(n.func.value, me)
        if a and not (isinstance(n.func.value, ast.Name)):
          if n.func.attr in MUTATORS:
            roots.append(a)
          elif n.func.attr not in READERS and uncertain is not None:
            uncertain.setdefault(a, n)
      for a in roots:
        out.setdefault(a, n)
  return out


def init_bound(ci):
  """Attributes bound by `self.A = ...` at the top level of __init__ (unconditionally)."""
  init = ci.methods.get('__init__')
  if init is None:
    return None
  me = init.params()[0]
  out = set()
  for st in init.node.body:
    if isinstance(st, (ast.Assign, ast.AnnAssign)):
      tg = st.targets if isinstance(st, ast.Assign) else [st.target]
      for t in tg:
        for e in (t.elts if isinstance(t, (ast.Tuple, ast.List)) else [t]):
          if isinstance(e, ast.Attribute) and isinstance(e.value, ast.Name) and e.value.id == me:
            out.add(e.attr)
  return out


def check_instance_state(ctx, ci, rule, mro=None):
  """One obligation per in-place-mutated attribute of ci: it is not a mutable
  object shared through the class body (of ci or a repository base class)."""
  uncertain = {}
  muts = mutated_attrs(ci, uncertain)
  for a, node in uncertain.items():
    muts.setdefault(a, node)
  bound = init_bound(ci) or set()
  classes = [ci] + list(mro or [])
  n = 0
  for a, node in sorted(muts.items()):
    shared = None
    for c in classes:
      v = c.attrs.get(a)
      if v is not None and mutable_value(v):
        shared = (c, v)
        break
    ok = shared is None or a in bound
    ctx.ob(rule, ci, shared[1] if shared and not ok else node, ok,
           'self.%s is mutated in place and is per-instance state' % a if ok else
           'self.%s is mutated in place (%s) but is bound once in the body of class %s to a mutable object and not rebound in __init__: all instances share it, '
           'so one parse depends on the ones before it' % (a, norm_text(node)[:60], shared[0].qualname),
           construct='%s.%s is per-instance' % (ci.qualname, a),
           unknown=('self.%s.%s(...) is not a known container method: whether it changes the shared object cannot be classified' % (a, node.func.attr))
           if (a in uncertain and uncertain[a] is node) else None)
    n += 1
  return n
