"""Trusted transcription of the part of the MusicXML 3.1 schema (musicxml.xsd) and
of the MXL container schema (container.xsd) that a partwise reader can touch:
for every element, the child elements and attributes the schema allows.  Only
the *names* are used (no ordering or cardinality).  This table is the external
format fact the ELEM/schema rules compare the parser's navigation against; it
was written from the specification, not from the parser."""

CHILDREN = {
    'score-partwise': {'work', 'movement-number', 'movement-title', 'identification', 'defaults', 'credit', 'part-list', 'part'},
    'work': {'work-number', 'work-title', 'opus'},
    'identification': {'creator', 'rights', 'encoding', 'source', 'relation', 'miscellaneous'},
    'part-list': {'part-group', 'score-part'},
    'score-part': {'identification', 'part-name', 'part-name-display', 'part-abbreviation', 'part-abbreviation-display', 'group',
                   'score-instrument', 'midi-device', 'midi-instrument'},
    'midi-instrument': {'midi-channel', 'midi-name', 'midi-bank', 'midi-program', 'midi-unpitched', 'volume', 'pan', 'elevation'},
    'part': {'measure'},
    'measure': {'note', 'backup', 'forward', 'direction', 'attributes', 'harmony', 'figured-bass', 'print', 'sound', 'barline',
                'grouping', 'link', 'bookmark'},
    'attributes': {'footnote', 'level', 'divisions', 'key', 'time', 'staves', 'part-symbol', 'instruments', 'clef', 'staff-details',
                   'transpose', 'directive', 'measure-style'},
    'transpose': {'diatonic', 'chromatic', 'octave-change', 'double'},
    'backup': {'duration', 'footnote', 'level'},
    'forward': {'duration', 'footnote', 'level', 'voice', 'staff'},
    'direction': {'direction-type', 'offset', 'footnote', 'level', 'voice', 'staff', 'sound'},
    'sound': {'midi-device', 'midi-instrument', 'play', 'offset'},
    'note': {'grace', 'cue', 'chord', 'pitch', 'unpitched', 'rest', 'duration', 'tie', 'instrument', 'footnote', 'level', 'voice',
             'type', 'dot', 'accidental', 'time-modification', 'stem', 'notehead', 'notehead-text', 'staff', 'beam', 'notations',
             'lyric', 'play'},
    'pitch': {'step', 'alter', 'octave'},
    'unpitched': {'display-step', 'display-octave'},
    'rest': {'display-step', 'display-octave'},
    'time-modification': {'actual-notes', 'normal-notes', 'normal-type', 'normal-dot'},
    'harmony': {'root', 'function', 'kind', 'inversion', 'bass', 'degree', 'frame', 'offset', 'footnote', 'level', 'staff'},
    'root': {'root-step', 'root-alter'},
    'bass': {'bass-step', 'bass-alter'},
    'degree': {'degree-value', 'degree-alter', 'degree-type'},
    'time': {'beats', 'beat-type', 'interchangeable', 'senza-misura'},
    'key': {'cancel', 'fifths', 'mode', 'key-step', 'key-alter', 'key-accidental', 'key-octave'},
    # leaves (text content only)
    'work-title': set(), 'work-number': set(), 'creator': set(), 'part-name': set(), 'midi-channel': set(), 'midi-program': set(),
    'divisions': set(), 'chromatic': set(), 'duration': set(), 'chord': set(), 'voice': set(), 'dot': set(), 'type': set(),
    'step': set(), 'alter': set(), 'octave': set(), 'actual-notes': set(), 'normal-notes': set(), 'kind': set(), 'offset': set(),
    'root-step': set(), 'root-alter': set(), 'bass-step': set(), 'bass-alter': set(), 'degree-value': set(), 'degree-alter': set(),
    'degree-type': set(), 'beats': set(), 'beat-type': set(), 'fifths': set(), 'mode': set(), 'grace': set(),
    # META-INF/container.xml
    'container': {'rootfiles'},
    'rootfiles': {'rootfile'},
    'rootfile': set(),
}

ATTRIBUTES = {
    'score-part': {'id'},
    'part': {'id'},
    'measure': {'number', 'implicit', 'non-controlling', 'width', 'id', 'text'},
    'sound': {'tempo', 'dynamics', 'dacapo', 'segno', 'dalsegno', 'coda', 'tocoda', 'divisions', 'forward-repeat', 'fine', 'time-only',
              'pizzicato', 'pan', 'elevation', 'damper-pedal', 'soft-pedal', 'sostenuto-pedal', 'id'},
    'rootfile': {'full-path', 'media-type'},
    'creator': {'type'},
    'kind': {'use-symbols', 'text', 'stack-degrees', 'parentheses-degrees', 'bracket-degrees', 'halign', 'valign'},
    'note': {'dynamics', 'end-dynamics', 'attack', 'release', 'time-only', 'pizzicato', 'print-object', 'print-leger', 'id'},
    'grace': {'steal-time-previous', 'steal-time-following', 'make-time', 'slash'},
}
