"""§2.6 normal forms: rational functions over opaque atoms with exact (Fraction)
coefficients.  Used only to compare two places of the code for equality /
reciprocity; there is no search and no solver."""
import ast
from fractions import Fraction

from .loader import dotted


class Poly:
  """Multivariate polynomial: {monomial: coeff}; monomial = tuple of (atom, power) sorted."""
  __slots__ = ('t',)

  def __init__(self, t=None):
    self.t = {k: v for k, v in (t or {}).items() if v != 0}

  @staticmethod
  def const(c):
    return Poly({(): Fraction(c)})

  @staticmethod
  def atom(a):
    return Poly({((a, 1),): Fraction(1)})

  def __add__(self, o):
    t = dict(self.t)
    for k, v in o.t.items():
      t[k] = t.get(k, 0) + v
    return Poly(t)

  def __neg__(self):
    return Poly({k: -v for k, v in self.t.items()})

  def __sub__(self, o):
    return self + (-o)

  def __mul__(self, o):
    t = {}
    for k1, v1 in self.t.items():
      for k2, v2 in o.t.items():
        d = dict(k1)
        for a, p in k2:
          d[a] = d.get(a, 0) + p
        k = tuple(sorted((a, p) for a, p in d.items() if p))
        t[k] = t.get(k, 0) + v1 * v2
    return Poly(t)

  def __eq__(self, o):
    return self.t == o.t

  def __hash__(self):
    return hash(tuple(sorted(self.t.items())))

  def is_zero(self):
    return not self.t

  def is_const(self):
    return all(k == () for k in self.t)

  def const_value(self):
    return self.t.get((), Fraction(0)) if self.is_const() else None

  def atoms(self):
    return set(a for k in self.t for a, _p in k)

  def coeff(self, atom):
    """coefficient of the degree-1 monomial `atom` (no other factors)."""
    return self.t.get(((atom, 1),), Fraction(0))

  def divide_by_atom(self, atom):
    """Exact quotient by one atom: every monomial must contain it exactly once."""
    t = {}
    for mon, c in self.t.items():
      d = dict(mon)
      if d.get(atom) != 1:
        return None
      del d[atom]
      t[tuple(sorted(d.items()))] = c
    return Poly(t)

  def __repr__(self):
    if not self.t:
      return '0'
    parts = []
    for k in sorted(self.t, key=lambda k: (len(k), k)):
      v = self.t[k]
      mon = '*'.join(a if p == 1 else '%s^%d' % (a, p) for a, p in k)
      if not mon:
        parts.append(str(v))
      elif v == 1:
        parts.append(mon)
      elif v == -1:
        parts.append('-' + mon)
      else:
        parts.append('%s*%s' % (v, mon))
    return ' + '.join(parts)


class Rat:
  __slots__ = ('n', 'd')

  def __init__(self, n, d=None):
    self.n = n
    self.d = d if d is not None else Poly.const(1)

  def __add__(self, o):
    return Rat(self.n * o.d + o.n * self.d, self.d * o.d)

  def __sub__(self, o):
    return Rat(self.n * o.d - o.n * self.d, self.d * o.d)

  def __neg__(self):
    return Rat(-self.n, self.d)

  def __mul__(self, o):
    return Rat(self.n * o.n, self.d * o.d)

  def __truediv__(self, o):
    return Rat(self.n * o.d, self.d * o.n)

  def equals(self, o):
    return (self.n * o.d) == (o.n * self.d)

  def is_one(self):
    return self.n == self.d

  def is_zero(self):
    return self.n.is_zero()

  def const_value(self):
    a, b = self.n.const_value(), self.d.const_value()
    if a is not None and b is not None and b != 0:
      return a / b
    return None

  def atoms(self):
    return self.n.atoms() | self.d.atoms()

  def poly(self):
    """As a polynomial if the denominator is a constant, else None."""
    c = self.d.const_value()
    if c is None or c == 0:
      return None
    return self.n * Poly.const(1 / c)

  def __repr__(self):
    if self.d == Poly.const(1):
      return repr(self.n)
    return '(%r)/(%r)' % (self.n, self.d)

  def subst(self, mapping):
    """Replace atoms by Rats (simultaneous substitution)."""
    def ev(poly):
      out = Rat(Poly.const(0))
      for mon, c in poly.t.items():
        term = Rat(Poly.const(c))
        for a, p in mon:
          base = mapping.get(a)
          if base is None:
            base = Rat(Poly.atom(a))
          for _ in range(p):
            term = term * base
        out = out + term
      return out
    return ev(self.n) / ev(self.d)


class NFError(Exception):
  pass


# Module-level numeric constants of the analysed program (UPPER_CASE names bound once, folded by sa.fold), set by the
# framework for every run; a name is listed only if every module that defines it gives it the same value.  The builder
# replaces such a name (also written <module>.NAME) by its value, so that `NUM_SPECIAL_MELODY_EVENTS` and `2`, or a range
# written with MAX_NUM_VELOCITY_BINS and one written out, have the same normal form.
GLOBAL_CONSTS = {}


def _global_const(name):
  v = GLOBAL_CONSTS.get(name)
  if v is None:
    return None
  return Rat(Poly.const(Fraction(str(v)) if isinstance(v, float) else Fraction(v)))


class Builder:
  """AST -> Rat.  env: name -> ast expr | Rat (substitutions).  strip: call
  names treated as identity (e.g. float)."""

  def __init__(self, env=None, strip=('float',), floor_class=None, attr_alias=None, int_mod=False):
    self.env = env or {}
    self.strip = set(strip)
    self.attr_alias = attr_alias or {}
    self.depth = 0
    # residue algebra (opt-in): x % N and x // N for a positive constant N become linear forms over two atoms per
    # (canonically oriented) argument, R[x|N] = x % N and Z[x|N] = [x % N == 0], using
    #   (-x) % N = N - x % N - N*[x % N == 0]      and      x // N = (x - x % N) / N
    self.int_mod = int_mod

  def _residue(self, x, n):
    """x % n as a linear form over R/Z atoms; x: Rat with constant denominator, n: positive integer."""
    p = x.poly()
    if p is None:
      raise NFError('residue of a non-polynomial')
    c = p.t.get((), Fraction(0))
    if c.denominator != 1:
      raise NFError('residue of a non-integral offset')

    def canon(q):
      k = q.t.get((), Fraction(0))
      return q - Poly.const(k) + Poly.const(k % n)
    a, b = canon(p), canon(-p)
    if a.is_const():
      return Rat(Poly.const(a.const_value() % n))
    if repr(a) <= repr(b):
      return Rat(Poly.atom('R[%r|%d]' % (a, n)))
    r, z = Poly.atom('R[%r|%d]' % (b, n)), Poly.atom('Z[%r|%d]' % (b, n))
    return Rat(Poly.const(n) - r - Poly.const(n) * z)

  def rat(self, node):
    self.depth += 1
    if self.depth > 60:
      raise NFError('expression too deep')
    try:
      return self._rat(node)
    finally:
      self.depth -= 1

  def _rat(self, node):
    if isinstance(node, Rat):
      return node
    if isinstance(node, ast.Constant):
      v = node.value
      if isinstance(v, bool) or not isinstance(v, (int, float)):
        return Rat(Poly.atom(repr(v)))
      return Rat(Poly.const(Fraction(str(v)) if isinstance(v, float) else Fraction(v)))
    if isinstance(node, ast.Name):
      if node.id in self.env:
        sub = self.env[node.id]
        if isinstance(sub, Rat):
          return sub
        saved = self.env
        self.env = {k: v for k, v in saved.items() if k != node.id}
        try:
          return self.rat(sub)
        finally:
          self.env = saved
      g = _global_const(node.id)
      if g is not None:
        return g
      return Rat(Poly.atom(node.id))
    if isinstance(node, ast.Attribute):
      d = dotted(node)
      if d is not None:
        if d in self.env:
          sub = self.env[d]
          return sub if isinstance(sub, Rat) else self.rat(sub)
        root, _, rest = d.partition('.')
        if root in self.env and isinstance(self.env[root], (ast.Name, ast.Attribute)):
          nd = dotted(self.env[root])
          if nd is not None:
            d = nd + '.' + rest
        if d not in self.attr_alias and d.count('.') == 1 and root not in ('self', 'cls') and rest.isupper():
          g = _global_const(rest)
          if g is not None:
            return g
        return Rat(Poly.atom(self.attr_alias.get(d, d)))
      return Rat(Poly.atom(self.text(node)))
    if isinstance(node, ast.UnaryOp):
      if isinstance(node.op, ast.USub):
        return -self.rat(node.operand)
      if isinstance(node.op, ast.UAdd):
        return self.rat(node.operand)
      return Rat(Poly.atom(self.text(node)))
    if isinstance(node, ast.BinOp):
      if isinstance(node.op, ast.Add):
        return self.rat(node.left) + self.rat(node.right)
      if isinstance(node.op, ast.Sub):
        return self.rat(node.left) - self.rat(node.right)
      if isinstance(node.op, ast.Mult):
        return self.rat(node.left) * self.rat(node.right)
      if isinstance(node.op, ast.Div):
        r = self.rat(node.right)
        if r.is_zero():
          raise NFError('division by zero')
        return self.rat(node.left) / r
      if self.int_mod and isinstance(node.op, (ast.Mod, ast.FloorDiv)):
        n = self.rat(node.right).const_value()
        if n is not None and n.denominator == 1 and n > 0:
          x = self.rat(node.left)
          res = self._residue(x, int(n))
          return res if isinstance(node.op, ast.Mod) else (x - res) / Rat(Poly.const(n))
      if isinstance(node.op, ast.LShift):
        # x << k  ==  x * 2 ** k  (written with the same atom a non-constant `2 ** k` gets)
        k = self.rat(node.right)
        kc = k.const_value()
        if kc is not None and kc.denominator == 1 and 0 <= kc <= 64:
          return self.rat(node.left) * Rat(Poly.const(2 ** int(kc)))
        return self.rat(node.left) * Rat(Poly.atom('(%r ** %r)' % (Rat(Poly.const(2)), k)))
      if isinstance(node.op, ast.Pow):
        e = self.rat(node.right).const_value()
        if e is not None and e.denominator == 1 and 0 <= e <= 6:
          out = Rat(Poly.const(1))
          b = self.rat(node.left)
          for _ in range(int(e)):
            out = out * b
          return out
      return Rat(Poly.atom(self.text(node)))
    if isinstance(node, ast.Call):
      d = dotted(node.func)
      if d in self.strip and len(node.args) == 1 and not node.keywords:
        return self.rat(node.args[0])
      return Rat(Poly.atom(self.text(node)))
    if isinstance(node, ast.IfExp):
      return Rat(Poly.atom(self.text(node)))
    return Rat(Poly.atom(self.text(node)))

  def text(self, node):
    """Canonical text of an opaque expression: sub-expressions in NF."""
    if isinstance(node, ast.Call):
      d = dotted(node.func) or self.text(node.func)
      args = [repr(self.rat(a)) if not isinstance(a, ast.Starred) else '*' + repr(self.rat(a.value)) for a in node.args]
      args += ['%s=%r' % (k.arg, self.rat(k.value)) for k in sorted(node.keywords, key=lambda k: k.arg or '')]
      return '%s(%s)' % (d, ', '.join(args))
    if isinstance(node, ast.BinOp):
      sym = {ast.FloorDiv: '//', ast.Mod: '%', ast.Pow: '**', ast.LShift: '<<', ast.RShift: '>>', ast.BitAnd: '&',
             ast.BitOr: '|', ast.BitXor: '^', ast.MatMult: '@'}.get(type(node.op), '?')
      return '(%r %s %r)' % (self.rat(node.left), sym, self.rat(node.right))
    if isinstance(node, ast.Subscript):
      if isinstance(node.slice, ast.Slice):
        parts = [repr(self.rat(x)) if x is not None else '' for x in (node.slice.lower, node.slice.upper, node.slice.step)]
        return '%s[%s]' % (self._base(node.value), ':'.join(parts))
      if isinstance(node.slice, ast.Tuple):
        return '%s[%s]' % (self._base(node.value), ', '.join(repr(self.rat(e)) for e in node.slice.elts))
      return '%s[%r]' % (self._base(node.value), self.rat(node.slice))
    if isinstance(node, ast.Attribute):
      return '%s.%s' % (self._base(node.value), node.attr)
    if isinstance(node, ast.IfExp):
      return '(%r if %s else %r)' % (self.rat(node.body), ast.unparse(node.test), self.rat(node.orelse))
    if isinstance(node, ast.UnaryOp):
      return '(%s %r)' % (type(node.op).__name__, self.rat(node.operand))
    try:
      return ' '.join(ast.unparse(node).split())
    except Exception:
      return ast.dump(node)

  def _base(self, node):
    if isinstance(node, (ast.Name, ast.Attribute)):
      r = self.rat(node)
      return repr(r)
    return self.text(node)

  def rename(self, mapping):
    """Add name -> Name substitutions (role names -> canonical names)."""
    for k, v in mapping.items():
      self.env[k] = ast.Name(id=v, ctx=ast.Load())
    return self


def rat(node, env=None, **kw):
  return Builder(env, **kw).rat(node)


def equal(a, b, env=None, **kw):
  bld = Builder(env, **kw)
  return bld.rat(a).equals(bld.rat(b))


def compare_nf(test, env=None, polarity=True, **kw):
  """(Rat, op) meaning  Rat op 0  with op in {'<','<=','==','!='}; None if not a
  two-operand comparison."""
  neg = not polarity
  while isinstance(test, ast.UnaryOp) and isinstance(test.op, ast.Not):
    neg = not neg
    test = test.operand
  if not isinstance(test, ast.Compare) or len(test.ops) != 1:
    return None
  bld = Builder(env, **kw)
  l, r = bld.rat(test.left), bld.rat(test.comparators[0])
  op = type(test.ops[0])
  table = {ast.Lt: ('<', l - r), ast.LtE: ('<=', l - r), ast.Gt: ('<', r - l), ast.GtE: ('<=', r - l),
           ast.Eq: ('==', l - r), ast.NotEq: ('!=', l - r)}
  if op not in table:
    return None
  sym, e = table[op]
  if neg:
    if sym == '<':
      sym, e = '<=', -e
    elif sym == '<=':
      sym, e = '<', -e
    else:
      sym = '!=' if sym == '==' else '=='
  return (e, sym)


def compare_equal(c1, c2):
  if c1 is None or c2 is None:
    return False
  (e1, s1), (e2, s2) = c1, c2
  if s1 != s2:
    return False
  if e1.equals(e2):
    return True
  return s1 in ('==', '!=') and e1.equals(-e2)
