"""Two-way self-test of the rules (thorough tier): in-memory variants of the
anchored source.  Breaking variants must be reported (new violation keys, of the
expected rule when one is named); equivalent variants must stay silent and must
not make the analysis give up.  Variants are source overlays: nothing is
written to /repo and nothing is executed."""
import ast
import concurrent.futures
import json
import os
import random

from .loader import AnalysisError, REPO


class Mutant:
  """A variant = one textual edit of one file.  `old` must occur exactly
  `count` times (default 1) in the current source, otherwise the variant is
  *inapplicable* on this tree (reported, never a failure).  count=0 means
  "replace every occurrence (at least one)" - used for renamings."""

  def __init__(self, name, file, old, new, expect='fire', rule=None, count=1, also=None, lenient=False):
    self.name = name
    self.lenient = lenient    # for expect='silent': "cannot decide" is an acceptable answer, a VIOLATION is not
    self.file = file          # relative to /repo
    self.old = old
    self.new = new
    self.expect = expect      # 'fire' | 'silent'
    self.rule = rule          # expected rule id prefix (optional)
    self.count = count
    self.also = also or []    # further (file, old, new) edits of the same variant

  def overlay(self, repo=None):
    repo = repo or REPO
    out = {}
    for (file, old, new) in [(self.file, self.old, self.new)] + list(self.also):
      src = out.get(file)
      if src is None:
        with open(os.path.join(repo, file), encoding='utf-8') as f:
          src = f.read()
      want = self.count if file == self.file and old == self.old else 1
      if (want and src.count(old) != want) or (not want and src.count(old) < 1):
        return None
      src = src.replace(old, new)
      if file.endswith('.py'):
        try:
          ast.parse(src)
        except SyntaxError:
          return None
      out[file] = src
    return out


class RenameLocal:
  """Equivalent variant: one local variable of one function renamed (AST-based,
  so attributes and keywords of the same spelling are untouched)."""
  expect = 'silent'
  rule = None

  def __init__(self, file, qualname, old, new=None):
    self.file = file
    self.qualname = qualname
    self.old = old
    self.new = new or (old + '_rn')
    self.name = 'rename local %s -> %s in %s' % (old, self.new, qualname)

  def overlay(self, repo=None):
    repo = repo or REPO
    with open(os.path.join(repo, self.file), encoding='utf-8') as f:
      src = f.read()
    tree = ast.parse(src)
    fn = _find_func(tree, self.qualname)
    if fn is None:
      return None
    names = set(n.id for n in ast.walk(fn) if isinstance(n, ast.Name))
    args = set(a.arg for n in ast.walk(fn) if isinstance(n, ast.arguments) for a in n.posonlyargs + n.args + n.kwonlyargs)
    if self.old not in names or self.new in names or self.old in args:
      return None
    for n in ast.walk(fn):
      if isinstance(n, ast.Name) and n.id == self.old:
        n.id = self.new
    return {self.file: ast.unparse(tree)}


class IntroduceTemp:
  """Equivalent variant: the value of the k-th plain `target = <call or arithmetic>` / `return <...>` statement of one
  function is first bound to a fresh temporary (`_tmpK = value; target = _tmpK`)."""
  expect = 'silent'
  rule = None
  lenient = True      # "cannot decide" (exit 2) is acceptable for this variant, an alarm is not

  def __init__(self, file, qualname, k):
    self.file = file
    self.qualname = qualname
    self.k = k
    self.name = 'introduce a temporary for statement #%d of %s' % (k, qualname)

  @staticmethod
  def candidates(fn):
    out = []
    for blk_owner in ast.walk(fn):
      for field in ('body', 'orelse', 'finalbody'):
        blk = getattr(blk_owner, field, None)
        if not (isinstance(blk, list) and blk and isinstance(blk[0], ast.stmt)):
          continue
        for i, st in enumerate(blk):
          v = getattr(st, 'value', None)
          if isinstance(st, (ast.Assign, ast.Return)) and isinstance(v, (ast.BinOp, ast.Call, ast.Compare, ast.Subscript)) and \
              not any(isinstance(n, (ast.Yield, ast.YieldFrom, ast.Await, ast.NamedExpr)) for n in ast.walk(v)):
            if isinstance(st, ast.Assign) and not all(isinstance(t, (ast.Name, ast.Attribute, ast.Subscript)) for t in st.targets):
              continue
            out.append((blk, i))
    return out

  def overlay(self, repo=None):
    repo = repo or REPO
    try:
      tree = ast.parse(open(os.path.join(repo, self.file), encoding='utf-8').read())
    except (OSError, SyntaxError):
      return None
    fn = _find_func(tree, self.qualname)
    if fn is None:
      return None
    c = self.candidates(fn)
    if self.k >= len(c):
      return None
    blk, i = c[self.k]
    st = blk[i]
    tmp = '_tmp%d' % self.k
    blk.insert(i, ast.Assign(targets=[ast.Name(id=tmp, ctx=ast.Store())], value=st.value, lineno=st.lineno, col_offset=st.col_offset))
    st.value = ast.Name(id=tmp, ctx=ast.Load())
    ast.fix_missing_locations(tree)
    return {self.file: ast.unparse(tree)}


def temp_variants(funcs, repo=None, per_function=3):
  out = []
  repo = repo or REPO
  cache = {}
  for (file, qualname) in funcs:
    if file not in cache:
      try:
        cache[file] = ast.parse(open(os.path.join(repo, file), encoding='utf-8').read())
      except (OSError, SyntaxError):
        cache[file] = None
    tree = cache[file]
    fn = _find_func(tree, qualname) if tree is not None else None
    if fn is None:
      continue
    n = len(IntroduceTemp.candidates(fn))
    if not n:
      continue
    # spread the picks over the function
    ks = sorted(set([0, n // 2, n - 1]))[:per_function]
    out.extend(IntroduceTemp(file, qualname, k) for k in ks)
  return out


class SwapIndependent:
  """Equivalent variant: two adjacent plain assignments of one function that neither read nor write anything the other
  writes (names, attribute chains and subscripts compared by their base name; statements containing calls are not moved)."""
  expect = 'silent'
  rule = None
  lenient = True

  def __init__(self, file, qualname, k):
    self.file, self.qualname, self.k = file, qualname, k
    self.name = 'swap independent adjacent assignments #%d of %s' % (k, qualname)

  @staticmethod
  def _rw(st):
    def base(n):
      while isinstance(n, (ast.Attribute, ast.Subscript)):
        n = n.value
      return n.id if isinstance(n, ast.Name) else None
    w = set()
    for t in st.targets:
      for e in (t.elts if isinstance(t, (ast.Tuple, ast.List)) else [t]):
        w.add(base(e))
    r = set(n.id for n in ast.walk(st) if isinstance(n, ast.Name) and isinstance(n.ctx, ast.Load))
    return r, w

  @classmethod
  def candidates(cls, fn):
    out = []
    for owner in ast.walk(fn):
      for field in ('body', 'orelse', 'finalbody'):
        blk = getattr(owner, field, None)
        if not (isinstance(blk, list) and blk and isinstance(blk[0], ast.stmt)):
          continue
        for i in range(len(blk) - 1):
          a, b = blk[i], blk[i + 1]
          if not (isinstance(a, ast.Assign) and isinstance(b, ast.Assign)):
            continue
          if any(isinstance(n, (ast.Call, ast.Yield, ast.Await, ast.NamedExpr)) for x in (a, b) for n in ast.walk(x)):
            continue
          ra, wa = cls._rw(a)
          rb, wb = cls._rw(b)
          if None in wa or None in wb or (wa & (rb | wb)) or (wb & ra):
            continue
          out.append((blk, i))
    return out

  def overlay(self, repo=None):
    repo = repo or REPO
    try:
      tree = ast.parse(open(os.path.join(repo, self.file), encoding='utf-8').read())
    except (OSError, SyntaxError):
      return None
    fn = _find_func(tree, self.qualname)
    if fn is None:
      return None
    c = self.candidates(fn)
    if self.k >= len(c):
      return None
    blk, i = c[self.k]
    blk[i], blk[i + 1] = blk[i + 1], blk[i]
    return {self.file: ast.unparse(tree)}


def swap_variants(funcs, repo=None, per_function=2):
  out = []
  repo = repo or REPO
  cache = {}
  for (file, qualname) in funcs:
    if file not in cache:
      try:
        cache[file] = ast.parse(open(os.path.join(repo, file), encoding='utf-8').read())
      except (OSError, SyntaxError):
        cache[file] = None
    fn = _find_func(cache[file], qualname) if cache[file] is not None else None
    if fn is None:
      continue
    n = len(SwapIndependent.candidates(fn))
    for k in sorted(set([0, n - 1]))[:per_function]:
      if 0 <= k < n:
        out.append(SwapIndependent(file, qualname, k))
  return out


def _find_func(tree, qualname):
  parts = qualname.split('.')
  cur = tree
  for p in parts:
    nxt = None
    for n in cur.body:
      if isinstance(n, (ast.FunctionDef, ast.ClassDef, ast.AsyncFunctionDef)) and n.name == p:
        nxt = n
    if nxt is None:
      return None
    cur = nxt
  return cur


def local_renames(funcs, repo=None):
  """One RenameLocal per assigned local of each (file, qualname)."""
  repo = repo or REPO
  out = []
  for file, qualname in funcs:
    try:
      tree = ast.parse(open(os.path.join(repo, file), encoding='utf-8').read())
    except (OSError, SyntaxError):
      continue
    fn = _find_func(tree, qualname)
    if fn is None:
      continue
    args = set(a.arg for n in ast.walk(fn) if isinstance(n, ast.arguments) for a in n.posonlyargs + n.args + n.kwonlyargs)
    glob = set(x for n in ast.walk(fn) if isinstance(n, (ast.Global, ast.Nonlocal)) for x in n.names)
    stored = []
    for n in ast.walk(fn):
      if isinstance(n, ast.Name) and isinstance(n.ctx, ast.Store) and n.id not in args and n.id not in glob and n.id not in stored and n.id != '_':
        stored.append(n.id)
    for name in stored:
      out.append(RenameLocal(file, qualname, name))
  return out


class FlipComparisons:
  """Equivalent variant: every two-operand comparison of one function is written
  the other way round (a < b  ->  b > a, a == b -> b == a)."""
  expect = 'silent'
  rule = None
  _MIRROR = {ast.Lt: ast.Gt, ast.Gt: ast.Lt, ast.LtE: ast.GtE, ast.GtE: ast.LtE, ast.Eq: ast.Eq, ast.NotEq: ast.NotEq}

  def __init__(self, file, qualname):
    self.file = file
    self.qualname = qualname
    self.name = 'flip every comparison in %s' % qualname

  def overlay(self, repo=None):
    repo = repo or REPO
    try:
      src = open(os.path.join(repo, self.file), encoding='utf-8').read()
      tree = ast.parse(src)
    except (OSError, SyntaxError):
      return None
    fn = _find_func(tree, self.qualname)
    if fn is None:
      return None
    n = 0
    for c in ast.walk(fn):
      if isinstance(c, ast.Compare) and len(c.ops) == 1 and type(c.ops[0]) in self._MIRROR:
        c.left, c.comparators[0] = c.comparators[0], c.left
        c.ops[0] = self._MIRROR[type(c.ops[0])]()
        n += 1
    if n == 0:
      return None
    return {self.file: ast.unparse(tree)}


class _TreeVariant:
  """Base of the generated equivalent variants: parse the file, find the function, let `transform` edit candidate #k."""
  expect = 'silent'
  rule = None
  lenient = True       # "cannot decide" is an acceptable answer; a VIOLATION is not
  label = '?'

  def __init__(self, file, qualname, k):
    self.file, self.qualname, self.k = file, qualname, k
    self.name = '%s #%d of %s' % (self.label, k, qualname)

  @classmethod
  def candidates(cls, fn):
    raise NotImplementedError

  def transform(self, cand):
    raise NotImplementedError

  def overlay(self, repo=None):
    repo = repo or REPO
    try:
      tree = ast.parse(open(os.path.join(repo, self.file), encoding='utf-8').read())
    except (OSError, SyntaxError):
      return None
    fn = _find_func(tree, self.qualname)
    if fn is None:
      return None
    c = self.candidates(fn)
    if self.k >= len(c):
      return None
    if self.transform(c[self.k]) is False:
      return None
    ast.fix_missing_locations(tree)
    return {self.file: ast.unparse(tree)}


def _blocks(fn):
  for owner in ast.walk(fn):
    for field in ('body', 'orelse', 'finalbody'):
      blk = getattr(owner, field, None)
      if isinstance(blk, list) and blk and isinstance(blk[0], ast.stmt):
        yield owner, field, blk


class InvertIf(_TreeVariant):
  """`if c: A else: B`  ->  `if not c: B else: A`  (B not an elif chain)."""
  label = 'if/else inverted'

  @classmethod
  def candidates(cls, fn):
    return [n for n in ast.walk(fn) if isinstance(n, ast.If) and n.orelse and not (len(n.orelse) == 1 and isinstance(n.orelse[0], ast.If))]

  def transform(self, n):
    n.test = ast.UnaryOp(op=ast.Not(), operand=n.test)
    n.body, n.orelse = n.orelse, n.body


class EarlyContinue(_TreeVariant):
  """a loop body ending in `if c: BODY` (no else)  ->  `if not c: continue` followed by BODY."""
  label = 'trailing if turned into an early continue'

  @classmethod
  def candidates(cls, fn):
    return [n for n in ast.walk(fn) if isinstance(n, (ast.For, ast.While)) and n.body and isinstance(n.body[-1], ast.If) and not n.body[-1].orelse]

  def transform(self, loop):
    last = loop.body[-1]
    guard = ast.If(test=ast.UnaryOp(op=ast.Not(), operand=last.test), body=[ast.Continue()], orelse=[])
    loop.body[-1:] = [guard] + list(last.body)


class IfToTernary(_TreeVariant):
  """`if c: x = a else: x = b`  ->  `x = a if c else b`  (same single name target in both branches)."""
  label = 'if/else assignment turned into a conditional expression'

  @classmethod
  def candidates(cls, fn):
    out = []
    for owner, field, blk in _blocks(fn):
      for i, n in enumerate(blk):
        if isinstance(n, ast.If) and len(n.body) == 1 and len(n.orelse) == 1 and all(
            isinstance(s, ast.Assign) and len(s.targets) == 1 and isinstance(s.targets[0], ast.Name) for s in (n.body[0], n.orelse[0])) and \
           n.body[0].targets[0].id == n.orelse[0].targets[0].id:
          out.append((blk, i))
    return out

  def transform(self, cand):
    blk, i = cand
    n = blk[i]
    blk[i] = ast.Assign(targets=[ast.Name(id=n.body[0].targets[0].id, ctx=ast.Store())],
                        value=ast.IfExp(test=n.test, body=n.body[0].value, orelse=n.orelse[0].value), lineno=n.lineno)


class AugToPlain(_TreeVariant):
  """`x op= e`  ->  `x = x op e`  (name and attribute targets)."""
  label = 'augmented assignment written out'

  @classmethod
  def candidates(cls, fn):
    out = []
    for owner, field, blk in _blocks(fn):
      for i, n in enumerate(blk):
        if isinstance(n, ast.AugAssign) and isinstance(n.target, (ast.Name, ast.Attribute)) and not any(isinstance(x, ast.Call) for x in ast.walk(n.target)):
          out.append((blk, i))
    return out

  def transform(self, cand):
    import copy
    blk, i = cand
    n = blk[i]
    load = copy.deepcopy(n.target)
    for x in ast.walk(load):
      if hasattr(x, 'ctx'):
        x.ctx = ast.Load()
    blk[i] = ast.Assign(targets=[n.target], value=ast.BinOp(left=load, op=n.op, right=n.value), lineno=n.lineno)


class SplitChain(_TreeVariant):
  """`a <= x <= b`  ->  `a <= x and x <= b`  (x a name or attribute chain: no side effects, evaluated twice)."""
  label = 'chained comparison split'

  @classmethod
  def candidates(cls, fn):
    return [n for n in ast.walk(fn) if isinstance(n, ast.Compare) and len(n.ops) == 2 and isinstance(n.comparators[0], (ast.Name, ast.Attribute)) and
            not any(isinstance(x, ast.Call) for x in ast.walk(n.comparators[0]))]

  def overlay(self, repo=None):
    import copy
    repo = repo or REPO
    try:
      tree = ast.parse(open(os.path.join(repo, self.file), encoding='utf-8').read())
    except (OSError, SyntaxError):
      return None
    fn = _find_func(tree, self.qualname)
    if fn is None:
      return None
    c = self.candidates(fn)
    if self.k >= len(c):
      return None
    target = c[self.k]

    class R(ast.NodeTransformer):
      def visit_Compare(self, node):
        if node is target:
          mid = node.comparators[0]
          return ast.BoolOp(op=ast.And(), values=[ast.Compare(left=node.left, ops=[node.ops[0]], comparators=[mid]),
                                                  ast.Compare(left=copy.deepcopy(mid), ops=[node.ops[1]], comparators=[node.comparators[1]])])
        return self.generic_visit(node)
    R().visit(fn)
    ast.fix_missing_locations(tree)
    return {self.file: ast.unparse(tree)}


class HoistAttr(_TreeVariant):
  """an attribute `v.f` of a loop variable that is read at least twice in the loop body and never stored there is read once
  into a local at the top of the body."""
  label = 'repeated attribute read hoisted into a local'

  @classmethod
  def candidates(cls, fn):
    out = []
    for lp in ast.walk(fn):
      if not (isinstance(lp, ast.For) and isinstance(lp.target, ast.Name)):
        continue
      v = lp.target.id
      reads, stores = {}, set()
      for b in lp.body:
        for n in ast.walk(b):
          if isinstance(n, ast.Attribute) and isinstance(n.value, ast.Name) and n.value.id == v:
            if isinstance(n.ctx, ast.Load):
              reads[n.attr] = reads.get(n.attr, 0) + 1
            else:
              stores.add(n.attr)
          if isinstance(n, ast.Name) and n.id == v and isinstance(n.ctx, (ast.Store, ast.Del)):
            stores.add('*')
      # method calls on v may change its fields: only hoist when v is never the receiver of a call or passed on
      escapes = any(isinstance(n, ast.Call) and any(isinstance(a, ast.Name) and a.id == v for a in list(n.args) + [k.value for k in n.keywords] + [getattr(n.func, 'value', None)])
                    for b in lp.body for n in ast.walk(b))
      if '*' in stores or escapes:
        continue
      for f, cnt in sorted(reads.items()):
        if cnt >= 2 and f not in stores:
          out.append((lp, v, f))
    return out

  def transform(self, cand):
    lp, v, f = cand
    local = '%s_%s_' % (v, f)

    class R(ast.NodeTransformer):
      def visit_Attribute(self, node):
        if isinstance(node.value, ast.Name) and node.value.id == v and node.attr == f and isinstance(node.ctx, ast.Load):
          return ast.copy_location(ast.Name(id=local, ctx=ast.Load()), node)
        return self.generic_visit(node)
    lp.body = [R().visit(b) for b in lp.body]
    lp.body.insert(0, ast.Assign(targets=[ast.Name(id=local, ctx=ast.Store())], value=ast.Attribute(value=ast.Name(id=v, ctx=ast.Load()), attr=f, ctx=ast.Load()), lineno=lp.lineno))


class LoopToComprehension(_TreeVariant):
  """`ys = []` directly followed by `for x in xs: [if c:] ys.append(e)`  ->  `ys = [e for x in xs if c]`."""
  label = 'accumulating loop turned into a comprehension'

  @classmethod
  def candidates(cls, fn):
    out = []
    for owner, field, blk in _blocks(fn):
      for i in range(len(blk) - 1):
        a, lp = blk[i], blk[i + 1]
        if not (isinstance(a, ast.Assign) and len(a.targets) == 1 and isinstance(a.targets[0], ast.Name) and isinstance(a.value, ast.List) and not a.value.elts):
          continue
        if not (isinstance(lp, ast.For) and not lp.orelse and len(lp.body) == 1):
          continue
        inner, cond = lp.body[0], None
        if isinstance(inner, ast.If) and not inner.orelse and len(inner.body) == 1:
          inner, cond = inner.body[0], inner.test
        ys = a.targets[0].id
        if isinstance(inner, ast.Expr) and isinstance(inner.value, ast.Call) and isinstance(inner.value.func, ast.Attribute) and inner.value.func.attr == 'append' and \
           isinstance(inner.value.func.value, ast.Name) and inner.value.func.value.id == ys and len(inner.value.args) == 1 and \
           not any(isinstance(n, ast.Name) and n.id == ys for n in ast.walk(inner.value.args[0])) and \
           not (cond is not None and any(isinstance(n, ast.Name) and n.id == ys for n in ast.walk(cond))):
          out.append((blk, i, ys, lp, inner.value.args[0], cond))
    return out

  def transform(self, cand):
    blk, i, ys, lp, elt, cond = cand
    comp = ast.ListComp(elt=elt, generators=[ast.comprehension(target=lp.target, iter=lp.iter, ifs=[cond] if cond is not None else [], is_async=0)])
    blk[i:i + 2] = [ast.Assign(targets=[ast.Name(id=ys, ctx=ast.Store())], value=comp, lineno=blk[i].lineno)]


class ProtoKwargs(_TreeVariant):
  """`m = X.add()` followed by consecutive `m.f = v` stores  ->  `m = X.add(f=v, ...)`  (protobuf scalar fields; the values do
  not mention m)."""
  label = 'protobuf field stores folded into add(field=...)'

  @classmethod
  def candidates(cls, fn):
    out = []
    for owner, field, blk in _blocks(fn):
      for i, a in enumerate(blk):
        if not (isinstance(a, ast.Assign) and len(a.targets) == 1 and isinstance(a.targets[0], ast.Name) and isinstance(a.value, ast.Call) and
                isinstance(a.value.func, ast.Attribute) and a.value.func.attr == 'add' and not a.value.args and not a.value.keywords):
          continue
        m = a.targets[0].id
        j = i + 1
        fields = []
        while j < len(blk) and isinstance(blk[j], ast.Assign) and len(blk[j].targets) == 1 and isinstance(blk[j].targets[0], ast.Attribute) and \
            isinstance(blk[j].targets[0].value, ast.Name) and blk[j].targets[0].value.id == m and \
            not any(isinstance(n, ast.Name) and n.id == m for n in ast.walk(blk[j].value)) and blk[j].targets[0].attr not in [f for f, _v in fields]:
          fields.append((blk[j].targets[0].attr, blk[j].value))
          j += 1
        if fields:
          out.append((blk, i, j, fields))
    return out

  def transform(self, cand):
    blk, i, j, fields = cand
    blk[i].value.keywords = [ast.keyword(arg=f, value=v) for f, v in fields]
    del blk[i + 1:j]


class InlineConstant(_TreeVariant):
  """a module-level numeric constant (UPPER_CASE, bound once to a literal number in the same file) used in the function is
  replaced by its literal value."""
  label = 'module constant replaced by its value'

  def overlay(self, repo=None):
    repo = repo or REPO
    try:
      tree = ast.parse(open(os.path.join(repo, self.file), encoding='utf-8').read())
    except (OSError, SyntaxError):
      return None
    consts = {}
    for st in tree.body:
      if isinstance(st, ast.Assign) and len(st.targets) == 1 and isinstance(st.targets[0], ast.Name) and st.targets[0].id.lstrip('_').isupper() and \
         isinstance(st.value, ast.Constant) and isinstance(st.value.value, (int, float)) and not isinstance(st.value.value, bool):
        consts[st.targets[0].id] = None if st.targets[0].id in consts else st.value.value
    fn = _find_func(tree, self.qualname)
    if fn is None:
      return None
    uses = [n for n in ast.walk(fn) if isinstance(n, ast.Name) and isinstance(n.ctx, ast.Load) and consts.get(n.id) is not None]
    names = []
    for n in uses:
      if n.id not in names:
        names.append(n.id)
    if self.k >= len(names):
      return None
    target = names[self.k]

    class R(ast.NodeTransformer):
      def visit_Name(self, node):
        if node.id == target and isinstance(node.ctx, ast.Load):
          return ast.copy_location(ast.Constant(value=consts[target]), node)
        return node
    R().visit(fn)
    ast.fix_missing_locations(tree)
    return {self.file: ast.unparse(tree)}

  @classmethod
  def count(cls, tree, fn):
    consts = set()
    for st in tree.body:
      if isinstance(st, ast.Assign) and len(st.targets) == 1 and isinstance(st.targets[0], ast.Name) and st.targets[0].id.lstrip('_').isupper() and \
         isinstance(st.value, ast.Constant) and isinstance(st.value.value, (int, float)) and not isinstance(st.value.value, bool):
        consts.add(st.targets[0].id)
    return len(set(n.id for n in ast.walk(fn) if isinstance(n, ast.Name) and isinstance(n.ctx, ast.Load) and n.id in consts))


def _simple_assign_pairs(fn, same_value):
  """Adjacent single-target assignments a = x; b = y in one block that can be fused: the targets are names or attributes,
  y does not read a (textually), the two targets differ; with same_value the two values have the same text and are free of calls."""
  out = []
  for _owner, _field, blk in _blocks(fn):
    for i in range(len(blk) - 1):
      a, b = blk[i], blk[i + 1]
      if not (isinstance(a, ast.Assign) and isinstance(b, ast.Assign) and len(a.targets) == 1 and len(b.targets) == 1):
        continue
      ta, tb = a.targets[0], b.targets[0]
      if not (isinstance(ta, (ast.Name, ast.Attribute)) and isinstance(tb, (ast.Name, ast.Attribute))):
        continue
      ta_t, tb_t = ast.unparse(ta), ast.unparse(tb)
      if ta_t == tb_t or any(ast.unparse(x) == ta_t for x in ast.walk(b.value)) or any(ast.unparse(x) == tb_t for x in ast.walk(a.value)):
        continue
      if any(isinstance(x, (ast.Call, ast.Yield, ast.Await, ast.NamedExpr)) for v in (a.value, b.value) for x in ast.walk(v)):
        continue
      if same_value and ast.unparse(a.value) != ast.unparse(b.value):
        continue
      out.append((blk, i))
  return out


class TupleAssign(_TreeVariant):
  """`a = x` ; `b = y`  ->  `a, b = x, y`  (independent, call-free)."""
  label = 'two assignments fused into a tuple assignment'

  @classmethod
  def candidates(cls, fn):
    return _simple_assign_pairs(fn, False)

  def transform(self, cand):
    blk, i = cand
    a, b = blk[i], blk[i + 1]
    new = ast.Assign(targets=[ast.Tuple(elts=[a.targets[0], b.targets[0]], ctx=ast.Store())], value=ast.Tuple(elts=[a.value, b.value], ctx=ast.Load()))
    blk[i:i + 2] = [ast.copy_location(new, a)]


class ChainAssign(_TreeVariant):
  """`a = v` ; `b = v`  ->  `a = b = v`  (v call-free)."""
  label = 'two assignments of one value chained'

  @classmethod
  def candidates(cls, fn):
    return _simple_assign_pairs(fn, True)

  def transform(self, cand):
    blk, i = cand
    a, b = blk[i], blk[i + 1]
    new = ast.Assign(targets=[a.targets[0], b.targets[0]], value=a.value)
    blk[i:i + 2] = [ast.copy_location(new, a)]


def generated_variants(funcs, repo=None, per_function=None):
  """per_function candidates of each kind per function (first, last, then evenly spread); VERIF_GEN_PER_FUNCTION widens the
  sample for a one-off sweep."""
  if per_function is None:
    per_function = int(os.environ.get('VERIF_GEN_PER_FUNCTION', '2'))
  out = []
  repo = repo or REPO
  cache = {}
  for (file, qualname) in funcs:
    if file not in cache:
      try:
        cache[file] = ast.parse(open(os.path.join(repo, file), encoding='utf-8').read())
      except (OSError, SyntaxError):
        cache[file] = None
    tree = cache[file]
    fn = _find_func(tree, qualname) if tree is not None else None
    if fn is None:
      continue
    for cls in (InvertIf, EarlyContinue, IfToTernary, AugToPlain, SplitChain, HoistAttr, LoopToComprehension, ProtoKwargs, TupleAssign, ChainAssign):
      n = len(cls.candidates(fn))
      ks = [0, n - 1] + [round(j * (n - 1) / max(per_function - 1, 1)) for j in range(per_function)]
      seen_k = []
      for k in ks:
        if 0 <= k < n and k not in seen_k:
          seen_k.append(k)
      for k in seen_k[:per_function]:
        out.append(cls(file, qualname, k))
    for k in range(min(InlineConstant.count(tree, fn), per_function)):
      out.append(InlineConstant(file, qualname, k))
  return out


def apply_unified_diff(text, diff_text, file):
  """Apply the hunks of `diff_text` that concern `file` to `text` (exact context match at the stated line,
  or at the unique position where the hunk's old lines occur).  None if a hunk does not apply."""
  lines = text.split('\n')
  cur = None
  hunks = []
  for ln in diff_text.rstrip('\n').split('\n'):
    if ln.startswith('+++ '):
      cur = ln[4:].strip()
      cur = cur[2:] if cur.startswith('b/') else cur
      continue
    if ln.startswith('--- ') or ln.startswith('diff ') or ln.startswith('index '):
      continue
    if ln.startswith('@@'):
      if cur == file:
        try:
          start = int(ln.split()[1].split(',')[0][1:])
        except (IndexError, ValueError):
          return None
        hunks.append([start, []])
      else:
        hunks.append(None)
      continue
    if hunks and hunks[-1] is not None and cur == file and (ln[:1] in ' +-' or ln == ''):
      if ln.startswith('\\'):
        continue
      hunks[-1][1].append(ln if ln else ' ')
  hunks = [h for h in hunks if h is not None]
  if not hunks:
    return None
  offset = 0
  for start, body in hunks:
    while body and body[-1] == ' ' and len([b for b in body if b[:1] in ' -']) > len(lines):
      body.pop()
    old = [b[1:] for b in body if b[:1] in ' -']
    new = [b[1:] for b in body if b[:1] in ' +']
    pos = start - 1 + offset
    if lines[pos:pos + len(old)] != old:
      # trailing blank context line produced by splitting on the final newline
      if old and old[-1] == '' and lines[pos:pos + len(old) - 1] == old[:-1]:
        old, new = old[:-1], (new[:-1] if new and new[-1] == '' else new)
      else:
        cands = [i for i in range(len(lines) - len(old) + 1) if lines[i:i + len(old)] == old]
        if len(cands) != 1:
          return None
        pos = cands[0]
    lines[pos:pos + len(old)] = new
    offset += len(new) - len(old)
  return '\n'.join(lines)


class PatchVariant:
  """A variant given as a unified diff (a confirmed seeded change or a confirmed harmless refactoring kept under
  /verif): applied in memory to the current source of the one file it touches.  strict: an analysis error does not
  count as a report."""
  strict = True

  def __init__(self, name, patch_path, expect, rule=None):
    self.name = name
    self.patch_path = patch_path
    self.expect = expect
    self.rule = rule
    txt = open(patch_path, encoding='utf-8').read()
    files = [l[4:].strip() for l in txt.split('\n') if l.startswith('+++ ')]
    self.file = files[0][2:] if files and files[0].startswith('b/') else (files[0] if files else '?')
    self._diff = txt

  def overlay(self, repo=None):
    repo = repo or REPO
    try:
      src = open(os.path.join(repo, self.file), encoding='utf-8').read()
    except OSError:
      return None
    new = apply_unified_diff(src, self._diff, self.file)
    if new is None or new == src:
      return None
    try:
      ast.parse(new)
    except SyntaxError:
      return None
    return {self.file: new}


def kept_patches(prop):
  """The confirmed seeded changes aimed at `prop` (must be reported) and the confirmed harmless refactorings
  of code `prop` depends on (must stay silent), from /verif/seeded and /verif/harmless."""
  import json
  out = []
  root = os.path.dirname(os.path.dirname(os.path.abspath(__file__)))
  for kind, expect in (('seeded', 'fire'), ('harmless', 'silent')):
    d = os.path.join(root, kind)
    if not os.path.isdir(d):
      continue
    for sid in sorted(os.listdir(d)):
      pp, mp = os.path.join(d, sid, 'patch.diff'), os.path.join(d, sid, 'meta.json')
      if not (os.path.isfile(pp) and os.path.isfile(mp)):
        continue
      try:
        meta = json.load(open(mp))
      except ValueError:
        continue
      if meta.get('property') == prop:
        if expect == 'fire' and prop not in (meta.get('caught_by') or []):
          continue      # recorded by tools/seed_matrix.py as not decided by this check (DESIGN.md 10.8): documented, not a regression guard
        out.append(PatchVariant('%s %s (%s/%s)' % ('seeded change' if expect == 'fire' else 'harmless refactoring', sid, kind, sid), pp, expect))
  return out


def all_variants(mod):
  muts = list(getattr(mod, 'MUTANTS', []))
  funcs = list(getattr(mod, 'RENAME_FUNCS', []))
  # plus every function that owns a rule instance on the unchanged tree (published by run_selftest for its workers)
  try:
    trees = {}
    for f, q in json.loads(os.environ.get('VERIF_SELFTEST_FUNCS', '[]')):
      if (f, q) in funcs:
        continue
      if f not in trees:
        try:
          trees[f] = ast.parse(open(os.path.join(REPO, f), encoding='utf-8').read())
        except (OSError, SyntaxError):
          trees[f] = None
      node = _find_func(trees[f], q) if trees[f] is not None else None
      if isinstance(node, (ast.FunctionDef, ast.AsyncFunctionDef)):      # functions only: renaming a class attribute is not a local change
        funcs.append((f, q))
  except ValueError:
    pass
  muts.extend(local_renames(funcs))
  muts.extend(FlipComparisons(f, q) for (f, q) in funcs)
  muts.extend(temp_variants(funcs))
  muts.extend(swap_variants(funcs))
  muts.extend(generated_variants(funcs))
  muts.extend(kept_patches(getattr(mod, 'PROPERTY', None)))
  return muts


def _run_one(args):
  prop, idx = args
  from . import framework
  mod = framework.load_rules(prop)
  m = all_variants(mod)[idx]
  ov = m.overlay()
  if ov is None:
    return (idx, 'inapplicable', [], None)
  try:
    ctx = framework.run_rules(prop, 'quick', overlay=ov)
  except AnalysisError as e:
    return (idx, 'analysis-error', [], str(e))
  except Exception as e:
    return (idx, 'internal-error', [], '%s: %s' % (type(e).__name__, e))
  keys = sorted(framework.violation_keys(ctx))
  return (idx, 'ran', keys, None)


def run_selftest(prop, mod, baseline_keys, seed=0, jobs=None, owners=None):
  # generated equivalent rewrites are applied to every function a rule instance is attached to, not only to the listed ones
  own = sorted(set((f, q) for f, q in (owners or []) if q and q != '<module>' and '<locals>' not in q))
  os.environ['VERIF_SELFTEST_FUNCS'] = json.dumps(own)
  muts = all_variants(mod)
  order = list(range(len(muts)))
  random.Random(seed).shuffle(order)
  results = {}
  jobs = jobs or min(16, os.cpu_count() or 1)
  if muts:
    with concurrent.futures.ProcessPoolExecutor(max_workers=jobs) as ex:
      for (idx, status, keys, err) in ex.map(_run_one, [(prop, i) for i in order]):
        results[idx] = (status, keys, err)
  failed = []
  rows = []
  killed = silent_ok = inappl = undecided = 0
  for i, m in enumerate(muts):
    status, keys, err = results[i]
    new = [k for k in keys if tuple(k) not in baseline_keys]
    row = {'variant': m.name, 'file': m.file, 'expect': m.expect, 'status': status}
    if status == 'inapplicable':
      inappl += 1
      row['result'] = 'inapplicable (anchor text not found on this tree)'
    elif m.expect == 'fire':
      if status == 'ran' and new and (m.rule is None or any(k[1].startswith(m.rule) for k in new)):
        killed += 1
        row['result'] = 'reported'
        row['reported_rules'] = sorted(set(k[1] for k in new))
      elif status == 'analysis-error' and not getattr(m, 'strict', False):
        # fail-closed: an undecidable variant is not a pass of the variant,
        # but it is not a silent miss either
        killed += 1
        row['result'] = 'analysis-error (fail-closed): %s' % err
      else:
        row['result'] = 'MISSED' + (' (reported other rules: %s)' % sorted(set(k[1] for k in new)) if new else '')
        failed.append('breaking variant %r not reported for %s' % (m.name, prop))
    else:
      if status == 'ran' and not new:
        silent_ok += 1
        row['result'] = 'silent'
      elif status == 'analysis-error' and (isinstance(m, PatchVariant) or getattr(m, 'lenient', False)):
        # a substantial refactoring the shape rules no longer recognise: "cannot decide" is not an alarm
        undecided += 1
        row['result'] = 'undecided (exit 2, no alarm): %s' % (err or '')[:200]
      else:
        row['result'] = 'FALSE-ALARM %s %s' % (status, err or [k[1:] for k in new][:3])
        failed.append('equivalent variant %r raised an alarm for %s: %s' % (m.name, prop, row['result']))
    rows.append(row)
  summary = {
      'variants': len(muts),
      'breaking_reported': killed,
      'breaking_total': sum(1 for m in muts if m.expect == 'fire'),
      'equivalent_silent': silent_ok,
      'equivalent_total': sum(1 for m in muts if m.expect == 'silent'),
      'refactorings_undecided': undecided,
      'inapplicable': inappl,
      'matrix': rows,
  }
  if muts and inappl > len(muts) // 2:
    failed.append('more than half of the self-test variants are inapplicable on this tree')
  return summary, failed
