"""Two-way self-test of the rules (thorough tier): in-memory variants of the
anchored source.  Breaking variants must be reported (new violation keys, of the
expected rule when one is named); equivalent variants must stay silent and must
not make the analysis give up.  Variants are source overlays: nothing is
written to /repo and nothing is executed."""
import ast
import concurrent.futures
import os
import random

from .loader import AnalysisError, REPO


class Mutant:
  """A variant = one textual edit of one file.  `old` must occur exactly
  `count` times (default 1) in the current source, otherwise the variant is
  *inapplicable* on this tree (reported, never a failure).  count=0 means
  "replace every occurrence (at least one)" - used for renamings."""

  def __init__(self, name, file, old, new, expect='fire', rule=None, count=1, also=None):
    self.name = name
    self.file = file          # relative to /repo
    self.old = old
    self.new = new
    self.expect = expect      # 'fire' | 'silent'
    self.rule = rule          # expected rule id prefix (optional)
    self.count = count
    self.also = also or []    # further (file, old, new) edits of the same variant

  def overlay(self, repo=None):
    repo = repo or REPO
    out = {}
    for (file, old, new) in [(self.file, self.old, self.new)] + list(self.also):
      src = out.get(file)
      if src is None:
        with open(os.path.join(repo, file), encoding='utf-8') as f:
          src = f.read()
      want = self.count if file == self.file and old == self.old else 1
      if (want and src.count(old) != want) or (not want and src.count(old) < 1):
        return None
      src = src.replace(old, new)
      if file.endswith('.py'):
        try:
          ast.parse(src)
        except SyntaxError:
          return None
      out[file] = src
    return out


class RenameLocal:
  """Equivalent variant: one local variable of one function renamed (AST-based,
  so attributes and keywords of the same spelling are untouched)."""
  expect = 'silent'
  rule = None

  def __init__(self, file, qualname, old, new=None):
    self.file = file
    self.qualname = qualname
    self.old = old
    self.new = new or (old + '_rn')
    self.name = 'rename local %s -> %s in %s' % (old, self.new, qualname)

  def overlay(self, repo=None):
    repo = repo or REPO
    with open(os.path.join(repo, self.file), encoding='utf-8') as f:
      src = f.read()
    tree = ast.parse(src)
    fn = _find_func(tree, self.qualname)
    if fn is None:
      return None
    names = set(n.id for n in ast.walk(fn) if isinstance(n, ast.Name))
    args = set(a.arg for n in ast.walk(fn) if isinstance(n, ast.arguments) for a in n.posonlyargs + n.args + n.kwonlyargs)
    if self.old not in names or self.new in names or self.old in args:
      return None
    for n in ast.walk(fn):
      if isinstance(n, ast.Name) and n.id == self.old:
        n.id = self.new
    return {self.file: ast.unparse(tree)}


class IntroduceTemp:
  """Equivalent variant: the value of the k-th plain `target = <call or arithmetic>` / `return <...>` statement of one
  function is first bound to a fresh temporary (`_tmpK = value; target = _tmpK`)."""
  expect = 'silent'
  rule = None
  lenient = True      # "cannot decide" (exit 2) is acceptable for this variant, an alarm is not

  def __init__(self, file, qualname, k):
    self.file = file
    self.qualname = qualname
    self.k = k
    self.name = 'introduce a temporary for statement #%d of %s' % (k, qualname)

  @staticmethod
  def candidates(fn):
    out = []
    for blk_owner in ast.walk(fn):
      for field in ('body', 'orelse', 'finalbody'):
        blk = getattr(blk_owner, field, None)
        if not (isinstance(blk, list) and blk and isinstance(blk[0], ast.stmt)):
          continue
        for i, st in enumerate(blk):
          v = getattr(st, 'value', None)
          if isinstance(st, (ast.Assign, ast.Return)) and isinstance(v, (ast.BinOp, ast.Call, ast.Compare, ast.Subscript)) and \
              not any(isinstance(n, (ast.Yield, ast.YieldFrom, ast.Await, ast.NamedExpr)) for n in ast.walk(v)):
            if isinstance(st, ast.Assign) and not all(isinstance(t, (ast.Name, ast.Attribute, ast.Subscript)) for t in st.targets):
              continue
            out.append((blk, i))
    return out

  def overlay(self, repo=None):
    repo = repo or REPO
    try:
      tree = ast.parse(open(os.path.join(repo, self.file), encoding='utf-8').read())
    except (OSError, SyntaxError):
      return None
    fn = _find_func(tree, self.qualname)
    if fn is None:
      return None
    c = self.candidates(fn)
    if self.k >= len(c):
      return None
    blk, i = c[self.k]
    st = blk[i]
    tmp = '_tmp%d' % self.k
    blk.insert(i, ast.Assign(targets=[ast.Name(id=tmp, ctx=ast.Store())], value=st.value, lineno=st.lineno, col_offset=st.col_offset))
    st.value = ast.Name(id=tmp, ctx=ast.Load())
    ast.fix_missing_locations(tree)
    return {self.file: ast.unparse(tree)}


def temp_variants(funcs, repo=None, per_function=3):
  out = []
  repo = repo or REPO
  cache = {}
  for (file, qualname) in funcs:
    if file not in cache:
      try:
        cache[file] = ast.parse(open(os.path.join(repo, file), encoding='utf-8').read())
      except (OSError, SyntaxError):
        cache[file] = None
    tree = cache[file]
    fn = _find_func(tree, qualname) if tree is not None else None
    if fn is None:
      continue
    n = len(IntroduceTemp.candidates(fn))
    if not n:
      continue
    # spread the picks over the function
    ks = sorted(set([0, n // 2, n - 1]))[:per_function]
    out.extend(IntroduceTemp(file, qualname, k) for k in ks)
  return out


class SwapIndependent:
  """Equivalent variant: two adjacent plain assignments of one function that neither read nor write anything the other
  writes (names, attribute chains and subscripts compared by their base name; statements containing calls are not moved)."""
  expect = 'silent'
  rule = None
  lenient = True

  def __init__(self, file, qualname, k):
    self.file, self.qualname, self.k = file, qualname, k
    self.name = 'swap independent adjacent assignments #%d of %s' % (k, qualname)

  @staticmethod
  def _rw(st):
    def base(n):
      while isinstance(n, (ast.Attribute, ast.Subscript)):
        n = n.value
      return n.id if isinstance(n, ast.Name) else None
    w = set()
    for t in st.targets:
      for e in (t.elts if isinstance(t, (ast.Tuple, ast.List)) else [t]):
        w.add(base(e))
    r = set(n.id for n in ast.walk(st) if isinstance(n, ast.Name) and isinstance(n.ctx, ast.Load))
    return r, w

  @classmethod
  def candidates(cls, fn):
    out = []
    for owner in ast.walk(fn):
      for field in ('body', 'orelse', 'finalbody'):
        blk = getattr(owner, field, None)
        if not (isinstance(blk, list) and blk and isinstance(blk[0], ast.stmt)):
          continue
        for i in range(len(blk) - 1):
          a, b = blk[i], blk[i + 1]
          if not (isinstance(a, ast.Assign) and isinstance(b, ast.Assign)):
            continue
          if any(isinstance(n, (ast.Call, ast.Yield, ast.Await, ast.NamedExpr)) for x in (a, b) for n in ast.walk(x)):
            continue
          ra, wa = cls._rw(a)
          rb, wb = cls._rw(b)
          if None in wa or None in wb or (wa & (rb | wb)) or (wb & ra):
            continue
          out.append((blk, i))
    return out

  def overlay(self, repo=None):
    repo = repo or REPO
    try:
      tree = ast.parse(open(os.path.join(repo, self.file), encoding='utf-8').read())
    except (OSError, SyntaxError):
      return None
    fn = _find_func(tree, self.qualname)
    if fn is None:
      return None
    c = self.candidates(fn)
    if self.k >= len(c):
      return None
    blk, i = c[self.k]
    blk[i], blk[i + 1] = blk[i + 1], blk[i]
    return {self.file: ast.unparse(tree)}


def swap_variants(funcs, repo=None, per_function=2):
  out = []
  repo = repo or REPO
  cache = {}
  for (file, qualname) in funcs:
    if file not in cache:
      try:
        cache[file] = ast.parse(open(os.path.join(repo, file), encoding='utf-8').read())
      except (OSError, SyntaxError):
        cache[file] = None
    fn = _find_func(cache[file], qualname) if cache[file] is not None else None
    if fn is None:
      continue
    n = len(SwapIndependent.candidates(fn))
    for k in sorted(set([0, n - 1]))[:per_function]:
      if 0 <= k < n:
        out.append(SwapIndependent(file, qualname, k))
  return out


def _find_func(tree, qualname):
  parts = qualname.split('.')
  cur = tree
  for p in parts:
    nxt = None
    for n in cur.body:
      if isinstance(n, (ast.FunctionDef, ast.ClassDef, ast.AsyncFunctionDef)) and n.name == p:
        nxt = n
    if nxt is None:
      return None
    cur = nxt
  return cur


def local_renames(funcs, repo=None):
  """One RenameLocal per assigned local of each (file, qualname)."""
  repo = repo or REPO
  out = []
  for file, qualname in funcs:
    try:
      tree = ast.parse(open(os.path.join(repo, file), encoding='utf-8').read())
    except (OSError, SyntaxError):
      continue
    fn = _find_func(tree, qualname)
    if fn is None:
      continue
    args = set(a.arg for n in ast.walk(fn) if isinstance(n, ast.arguments) for a in n.posonlyargs + n.args + n.kwonlyargs)
    glob = set(x for n in ast.walk(fn) if isinstance(n, (ast.Global, ast.Nonlocal)) for x in n.names)
    stored = []
    for n in ast.walk(fn):
      if isinstance(n, ast.Name) and isinstance(n.ctx, ast.Store) and n.id not in args and n.id not in glob and n.id not in stored and n.id != '_':
        stored.append(n.id)
    for name in stored:
      out.append(RenameLocal(file, qualname, name))
  return out


class FlipComparisons:
  """Equivalent variant: every two-operand comparison of one function is written
  the other way round (a < b  ->  b > a, a == b -> b == a)."""
  expect = 'silent'
  rule = None
  _MIRROR = {ast.Lt: ast.Gt, ast.Gt: ast.Lt, ast.LtE: ast.GtE, ast.GtE: ast.LtE, ast.Eq: ast.Eq, ast.NotEq: ast.NotEq}

  def __init__(self, file, qualname):
    self.file = file
    self.qualname = qualname
    self.name = 'flip every comparison in %s' % qualname

  def overlay(self, repo=None):
    repo = repo or REPO
    try:
      src = open(os.path.join(repo, self.file), encoding='utf-8').read()
      tree = ast.parse(src)
    except (OSError, SyntaxError):
      return None
    fn = _find_func(tree, self.qualname)
    if fn is None:
      return None
    n = 0
    for c in ast.walk(fn):
      if isinstance(c, ast.Compare) and len(c.ops) == 1 and type(c.ops[0]) in self._MIRROR:
        c.left, c.comparators[0] = c.comparators[0], c.left
        c.ops[0] = self._MIRROR[type(c.ops[0])]()
        n += 1
    if n == 0:
      return None
    return {self.file: ast.unparse(tree)}


def apply_unified_diff(text, diff_text, file):
  """Apply the hunks of `diff_text` that concern `file` to `text` (exact context match at the stated line,
  or at the unique position where the hunk's old lines occur).  None if a hunk does not apply."""
  lines = text.split('\n')
  cur = None
  hunks = []
  for ln in diff_text.rstrip('\n').split('\n'):
    if ln.startswith('+++ '):
      cur = ln[4:].strip()
      cur = cur[2:] if cur.startswith('b/') else cur
      continue
    if ln.startswith('--- ') or ln.startswith('diff ') or ln.startswith('index '):
      continue
    if ln.startswith('@@'):
      if cur == file:
        try:
          start = int(ln.split()[1].split(',')[0][1:])
        except (IndexError, ValueError):
          return None
        hunks.append([start, []])
      else:
        hunks.append(None)
      continue
    if hunks and hunks[-1] is not None and cur == file and (ln[:1] in ' +-' or ln == ''):
      if ln.startswith('\\'):
        continue
      hunks[-1][1].append(ln if ln else ' ')
  hunks = [h for h in hunks if h is not None]
  if not hunks:
    return None
  offset = 0
  for start, body in hunks:
    while body and body[-1] == ' ' and len([b for b in body if b[:1] in ' -']) > len(lines):
      body.pop()
    old = [b[1:] for b in body if b[:1] in ' -']
    new = [b[1:] for b in body if b[:1] in ' +']
    pos = start - 1 + offset
    if lines[pos:pos + len(old)] != old:
      # trailing blank context line produced by splitting on the final newline
      if old and old[-1] == '' and lines[pos:pos + len(old) - 1] == old[:-1]:
        old, new = old[:-1], (new[:-1] if new and new[-1] == '' else new)
      else:
        cands = [i for i in range(len(lines) - len(old) + 1) if lines[i:i + len(old)] == old]
        if len(cands) != 1:
          return None
        pos = cands[0]
    lines[pos:pos + len(old)] = new
    offset += len(new) - len(old)
  return '\n'.join(lines)


class PatchVariant:
  """A variant given as a unified diff (a confirmed seeded change or a confirmed harmless refactoring kept under
  /verif): applied in memory to the current source of the one file it touches.  strict: an analysis error does not
  count as a report."""
  strict = True

  def __init__(self, name, patch_path, expect, rule=None):
    self.name = name
    self.patch_path = patch_path
    self.expect = expect
    self.rule = rule
    txt = open(patch_path, encoding='utf-8').read()
    files = [l[4:].strip() for l in txt.split('\n') if l.startswith('+++ ')]
    self.file = files[0][2:] if files and files[0].startswith('b/') else (files[0] if files else '?')
    self._diff = txt

  def overlay(self, repo=None):
    repo = repo or REPO
    try:
      src = open(os.path.join(repo, self.file), encoding='utf-8').read()
    except OSError:
      return None
    new = apply_unified_diff(src, self._diff, self.file)
    if new is None or new == src:
      return None
    try:
      ast.parse(new)
    except SyntaxError:
      return None
    return {self.file: new}


def kept_patches(prop):
  """The confirmed seeded changes aimed at `prop` (must be reported) and the confirmed harmless refactorings
  of code `prop` depends on (must stay silent), from /verif/seeded and /verif/harmless."""
  import json
  out = []
  root = os.path.dirname(os.path.dirname(os.path.abspath(__file__)))
  for kind, expect in (('seeded', 'fire'), ('harmless', 'silent')):
    d = os.path.join(root, kind)
    if not os.path.isdir(d):
      continue
    for sid in sorted(os.listdir(d)):
      pp, mp = os.path.join(d, sid, 'patch.diff'), os.path.join(d, sid, 'meta.json')
      if not (os.path.isfile(pp) and os.path.isfile(mp)):
        continue
      try:
        meta = json.load(open(mp))
      except ValueError:
        continue
      if meta.get('property') == prop:
        if expect == 'fire' and prop not in (meta.get('caught_by') or []):
          continue      # recorded by tools/seed_matrix.py as not decided by this check (DESIGN.md 10.8): documented, not a regression guard
        out.append(PatchVariant('%s %s (%s/%s)' % ('seeded change' if expect == 'fire' else 'harmless refactoring', sid, kind, sid), pp, expect))
  return out


def all_variants(mod):
  muts = list(getattr(mod, 'MUTANTS', []))
  funcs = getattr(mod, 'RENAME_FUNCS', [])
  muts.extend(local_renames(funcs))
  muts.extend(FlipComparisons(f, q) for (f, q) in funcs)
  muts.extend(temp_variants(funcs))
  muts.extend(swap_variants(funcs))
  muts.extend(kept_patches(getattr(mod, 'PROPERTY', None)))
  return muts


def _run_one(args):
  prop, idx = args
  from . import framework
  mod = framework.load_rules(prop)
  m = all_variants(mod)[idx]
  ov = m.overlay()
  if ov is None:
    return (idx, 'inapplicable', [], None)
  try:
    ctx = framework.run_rules(prop, 'quick', overlay=ov)
  except AnalysisError as e:
    return (idx, 'analysis-error', [], str(e))
  except Exception as e:
    return (idx, 'internal-error', [], '%s: %s' % (type(e).__name__, e))
  keys = sorted(framework.violation_keys(ctx))
  return (idx, 'ran', keys, None)


def run_selftest(prop, mod, baseline_keys, seed=0, jobs=None):
  muts = all_variants(mod)
  order = list(range(len(muts)))
  random.Random(seed).shuffle(order)
  results = {}
  jobs = jobs or min(16, os.cpu_count() or 1)
  if muts:
    with concurrent.futures.ProcessPoolExecutor(max_workers=jobs) as ex:
      for (idx, status, keys, err) in ex.map(_run_one, [(prop, i) for i in order]):
        results[idx] = (status, keys, err)
  failed = []
  rows = []
  killed = silent_ok = inappl = undecided = 0
  for i, m in enumerate(muts):
    status, keys, err = results[i]
    new = [k for k in keys if tuple(k) not in baseline_keys]
    row = {'variant': m.name, 'file': m.file, 'expect': m.expect, 'status': status}
    if status == 'inapplicable':
      inappl += 1
      row['result'] = 'inapplicable (anchor text not found on this tree)'
    elif m.expect == 'fire':
      if status == 'ran' and new and (m.rule is None or any(k[1].startswith(m.rule) for k in new)):
        killed += 1
        row['result'] = 'reported'
        row['reported_rules'] = sorted(set(k[1] for k in new))
      elif status == 'analysis-error' and not getattr(m, 'strict', False):
        # fail-closed: an undecidable variant is not a pass of the variant,
        # but it is not a silent miss either
        killed += 1
        row['result'] = 'analysis-error (fail-closed): %s' % err
      else:
        row['result'] = 'MISSED' + (' (reported other rules: %s)' % sorted(set(k[1] for k in new)) if new else '')
        failed.append('breaking variant %r not reported for %s' % (m.name, prop))
    else:
      if status == 'ran' and not new:
        silent_ok += 1
        row['result'] = 'silent'
      elif status == 'analysis-error' and (isinstance(m, PatchVariant) or getattr(m, 'lenient', False)):
        # a substantial refactoring the shape rules no longer recognise: "cannot decide" is not an alarm
        undecided += 1
        row['result'] = 'undecided (exit 2, no alarm): %s' % (err or '')[:200]
      else:
        row['result'] = 'FALSE-ALARM %s %s' % (status, err or [k[1:] for k in new][:3])
        failed.append('equivalent variant %r raised an alarm for %s: %s' % (m.name, prop, row['result']))
    rows.append(row)
  summary = {
      'variants': len(muts),
      'breaking_reported': killed,
      'breaking_total': sum(1 for m in muts if m.expect == 'fire'),
      'equivalent_silent': silent_ok,
      'equivalent_total': sum(1 for m in muts if m.expect == 'silent'),
      'refactorings_undecided': undecided,
      'inapplicable': inappl,
      'matrix': rows,
  }
  if muts and inappl > len(muts) // 2:
    failed.append('more than half of the self-test variants are inapplicable on this tree')
  return summary, failed
