"""§2.6/§3.1: structured abstract interpreter computing may-alias facts for
protobuf messages and Python containers, a write log, unknown-call log and
return values.  Flow-sensitive for local variables, flow-insensitive for the
contents of Python containers (allocation-site heap), context-sensitive by full
inlining of repo callees (bounded depth, recursion guard), flag-sensitive for
arguments that are literal constants at the call site.

Abstract value (AV):
  refs   - set of (root, path): protobuf objects this value may be, or be a
           sub-object of.  root = ('P', param) | ('F', site, msgtype) |
           ('G', name) | ('U',).  path = tuple of field names and '[]'.
  conts  - set of heap sites of Python containers / objects it may be.
  funcs  - set of closures (FuncInfo or lambda node, defining env).
  static - set of statically resolved things (ModuleInfo, ClassInfo, FuncInfo,
           ('ext', dotted)).
  const  - a Python constant, or NOCONST.
"""
import ast

from . import loader
from .loader import AnalysisError, FuncInfo, ClassInfo, ModuleInfo

NOCONST = object()
MAXPATH = 6
MAXDEPTH = 7


class AV:
  __slots__ = ('refs', 'conts', 'funcs', 'static', 'const')

  def __init__(self, refs=frozenset(), conts=frozenset(), funcs=frozenset(), static=frozenset(), const=NOCONST):
    self.refs = refs
    self.conts = conts
    self.funcs = funcs
    self.static = static
    self.const = const

  def is_bottom(self):
    return not (self.refs or self.conts or self.funcs or self.static)

  def tracked(self):
    return bool(self.refs or self.conts)

  def key(self):
    c = self.const
    if c is NOCONST:
      ck = ('n',)
    else:
      ck = ('c', type(c).__name__, repr(c))
    return (self.refs, self.conts, frozenset(id(f[0]) if isinstance(f, tuple) else id(f) for f in self.funcs),
            frozenset(map(_skey, self.static)), ck)

  def __repr__(self):
    parts = []
    if self.refs:
      parts.append('refs=%s' % sorted(map(fmt_ref, self.refs)))
    if self.conts:
      parts.append('conts=%d' % len(self.conts))
    if self.funcs:
      parts.append('funcs=%d' % len(self.funcs))
    if self.static:
      parts.append('static=%s' % [str(s) for s in self.static])
    if self.const is not NOCONST:
      parts.append('const=%r' % (self.const,))
    return 'AV(%s)' % ', '.join(parts)


def _skey(s):
  return s if isinstance(s, tuple) else id(s)


BOT = AV()


def fmt_root(root):
  if root[0] == 'P':
    return 'param:' + root[1]
  if root[0] == 'F':
    return 'fresh@%s' % (root[1][-1],) + (':' + root[2] if root[2] else '')
  if root[0] == 'G':
    return 'global:' + root[1]
  return 'unknown'


def fmt_ref(ref):
  root, path = ref
  return fmt_root(root) + ''.join('[]' if p == '[]' else '.' + p for p in path)


def join(*avs):
  avs = [a for a in avs if a is not None]
  if not avs:
    return BOT
  if len(avs) == 1:
    return avs[0]
  refs = frozenset().union(*[a.refs for a in avs])
  conts = frozenset().union(*[a.conts for a in avs])
  funcs = frozenset().union(*[a.funcs for a in avs])
  static = frozenset().union(*[a.static for a in avs])
  consts = [a.const for a in avs]
  const = consts[0]
  for c in consts[1:]:
    if c is NOCONST or const is NOCONST or type(c) is not type(const) or c != const:
      const = NOCONST
      break
  return AV(refs, conts, funcs, static, const)


class Cont:
  """Heap object: Python container or class instance (flow-insensitive)."""
  __slots__ = ('kind', 'item', 'tup', 'fields', 'cls', 'site', 'node')

  def __init__(self, kind, site, node=None):
    self.kind = kind
    self.item = BOT
    self.tup = None
    self.fields = {}
    self.cls = None
    self.site = site
    self.node = node


class Env:
  __slots__ = ('vars', 'parent')

  def __init__(self, parent=None, vars=None):
    self.vars = vars if vars is not None else {}
    self.parent = parent

  def get(self, name):
    e = self
    while e is not None:
      if name in e.vars:
        return e.vars[name]
      e = e.parent
    return None

  def set(self, name, av):
    self.vars[name] = av

  def copy(self):
    return Env(self.parent, dict(self.vars))

  def key(self):
    return tuple(sorted((k, v.key()) for k, v in self.vars.items()))


def join_env(a, b):
  if a is None:
    return b
  if b is None:
    return a
  out = dict(a.vars)
  for k, v in b.vars.items():
    if k in out:
      out[k] = join(out[k], v)
    else:
      out[k] = v
  return Env(a.parent, out)


class Write:
  __slots__ = ('root', 'path', 'op', 'node', 'stmt', 'func', 'chain', 'conds', 'loops', 'value', 'recv')

  def __init__(self, root, path, op, node, stmt, func, chain, conds, loops, value=None, recv=None):
    self.root = root
    self.path = path
    self.op = op
    self.node = node
    self.stmt = stmt
    self.func = func
    self.chain = chain
    self.conds = conds
    self.loops = loops
    self.value = value   # ast of stored / operand value, if any
    self.recv = recv     # ast of the receiver expression

  def where(self):
    return loader.loc(self.func, self.node)

  def __repr__(self):
    return '<Write %s %s at %s>' % (self.op, fmt_ref((self.root, self.path)), self.where())


class UnknownCall:
  __slots__ = ('name', 'node', 'func', 'chain', 'args', 'kind')

  def __init__(self, name, node, func, chain, args, kind):
    self.name = name
    self.node = node
    self.func = func
    self.chain = chain
    self.args = args    # list of AV that were tracked
    self.kind = kind    # 'ext' | 'unresolved' | 'method'

  def where(self):
    return loader.loc(self.func, self.node)


# --- protobuf API model (trusted base, §3.1) -----------------------------------
PB_WRITE_METHODS = {
    'append', 'extend', 'insert', 'MergeFrom', 'CopyFrom', 'sort', 'remove', 'pop', 'reverse', 'Clear',
    'ClearField', 'clear', 'ParseFromString', 'MergeFromString', 'SetInParent', 'DiscardUnknownFields',
    'add', 'ClearExtension', 'FromString',
}
PB_READ_METHODS = {
    'HasField', 'WhichOneof', 'SerializeToString', 'SerializePartialToString', 'ByteSize', 'IsInitialized',
    'ListFields', 'index', 'count', 'HasExtension', 'FindInitializationErrors', '__len__', '__str__',
    'SerializeToOstream', 'Name', 'Value', 'keys', 'values', 'items',
}
# Python container methods
PY_ADD_ONE = {'append', 'add', 'appendleft', 'put', 'push'}
PY_ADD_MANY = {'extend', 'update', 'extendleft', 'union', 'intersection', 'difference', '__add__'}
PY_RET_ELEM = {'pop', 'popleft', 'get', '__getitem__', 'popitem', 'peek'}
PY_RET_SELF = {'values', 'copy', 'keys', '__iter__', 'most_common', 'tolist', 'elements'}
PY_NEUTRAL = {'sort', 'reverse', 'clear', 'remove', 'discard', 'index', 'count', 'join', 'format', 'startswith',
              'endswith', 'split', 'strip', 'lower', 'upper', 'replace', 'encode', 'decode', 'isdigit', 'find',
              'rstrip', 'lstrip', 'splitlines', 'title', 'zfill', 'isalpha', 'group', 'groups', 'match', 'search',
              'astype', 'reshape', 'sum', 'max', 'min', 'mean', 'any', 'all', 'nonzero', 'flatten', 'fill',
              'transpose', 'argmax', 'argmin', 'item', 'end', 'start', 'span', 'sub', 'fullmatch', 'finditer',
              'findall', 'seek', 'read', 'write', 'close', 'getvalue', 'cumsum', 'round', 'dot', 'squeeze',
              'setflags', 'partition', 'rpartition', 'capitalize', 'isspace', 'center', 'ljust', 'rjust',
              'total_seconds', 'isupper', 'islower', 'swapcase', 'groupdict', 'as_integer_ratio', 'is_integer',
              'limit_denominator', 'bit_length', 'conjugate', 'hex', 'ravel', 'tobytes', 'view', 'clip'}

# Library model: dotted name -> behaviour
#  'elem'  : returns a value that may alias (elements of) its arguments
#  'fresh' : returns a new Python container holding (elements of) its arguments
#  'pure'  : reads only, returns a scalar / opaque value
LIB_ELEM = {'max', 'min', 'next', 'random.choice', 'copy.copy', 'functools.reduce', 'sum', 'operator.getitem',
            'getattr', 'numpy.random.choice'}
LIB_FRESH = {'sorted', 'list', 'tuple', 'set', 'frozenset', 'reversed', 'filter', 'iter', 'itertools.chain',
             'itertools.chain.from_iterable', 'collections.deque', 'itertools.islice', 'itertools.cycle',
             'itertools.repeat', 'itertools.tee', 'heapq.nlargest', 'heapq.nsmallest', 'random.sample',
             'itertools.takewhile', 'itertools.dropwhile', 'itertools.filterfalse', 'itertools.compress'}
LIB_PURE_PREFIX = ('math.', 'numpy.', 'absl.logging.', 'logging.', 'bisect.', 'operator.', 'fractions.', 're.',
                   'os.path.', 'struct.', 'string.', 'random.', 'numbers.', 'six.', 'warnings.', 'abc.',
                   'scipy.', 'librosa.', 'bokeh.', 'IPython.', 'pandas.', 'functools.', 'collections.abc.',
                   'time.', 'sys.', 'tempfile.', 'io.', 'zipfile.', 'xml.', 'base64.', 'json.', 'uuid.',
                   'wave.', 'pydub.', 'attr.', 'intervaltree.', 'contextlib.', 'itertools.', 'urllib.',
                   'tensorflow.', 'sox.', 'subprocess.', 'shutil.', 'os.', 'pretty_midi.')
LIB_PURE = {'len', 'int', 'float', 'str', 'bool', 'abs', 'round', 'any', 'all', 'isinstance', 'issubclass', 'range',
            'print', 'repr', 'hash', 'id', 'type', 'ord', 'chr', 'divmod', 'pow', 'hasattr', 'callable', 'format',
            'bytes', 'bytearray', 'open', 'super', 'vars', 'dir', 'bin', 'hex', 'oct', 'slice', 'object', 'complex',
            'ValueError', 'TypeError', 'KeyError', 'IndexError', 'AssertionError', 'NotImplementedError',
            'Exception', 'RuntimeError', 'AttributeError', 'StopIteration', 'IOError', 'OSError', 'ZeroDivisionError',
            'collections.namedtuple', 'collections.Counter', 'collections.OrderedDict', 'memoryview', 'input',
            'staticmethod', 'classmethod', 'property', 'xrange', 'unicode', 'long', 'basestring'}


class Result:
  def __init__(self):
    self.writes = []
    self.unknown_calls = []
    self.returns = []        # list of (AV, return node, chain)
    self.facts = {}          # id(expr node) -> AV (entry level and inlined, joined)
    self.raises = []         # (node, chain)
    self.calls = []          # (callee FuncInfo, call node, chain)
    self.ext_calls = []      # (dotted name, call node, FuncInfo, chain)
    self.heap = None
    self.root_types = {}
    self.stats = {'calls_resolved': 0, 'calls_unknown': 0, 'calls_lib': 0, 'inlined': 0, 'stmts': 0}

  def ret(self):
    return join(*[r[0] for r in self.returns]) if self.returns else BOT


class Interp:
  def __init__(self, program, schema, max_depth=MAXDEPTH):
    self.P = program
    self.S = schema
    self.max_depth = max_depth
    self.field_index = schema.field_names()

  # ================================================================= entry
  def analyze(self, fi, param_types=None, consts=None, self_class=None):
    """Analyse function `fi` as an entry point.
    param_types: {param: 'NoteSequence' | 'list:NoteSequence' | message qualname}
    consts: {param: python constant} (flag state)"""
    self.res = Result()
    self.heap = {}
    self.res.heap = self.heap
    self.root_types = self.res.root_types
    self.entry = fi
    env = Env()
    self._bind_defaults(fi, env)
    for p in fi.params():
      if consts and p in consts:
        env.set(p, AV(const=consts[p]))
        continue
      if p == 'self' and fi.cls is not None and not fi.is_static:
        env.set(p, self._self_obj(self_class or fi.cls))
        continue
      if p == 'cls' and fi.is_classmethod:
        env.set(p, AV(static=frozenset([self_class or fi.cls])))
        continue
      root = ('P', p)
      t = (param_types or {}).get(p)
      if t:
        self.root_types[root] = t
      env.set(p, AV(refs=frozenset([(root, ())])))
    a = fi.node.args
    if a.vararg:
      env.set(a.vararg.arg, AV(refs=frozenset([(('P', a.vararg.arg), ())])))
    if a.kwarg:
      env.set(a.kwarg.arg, AV(refs=frozenset([(('P', a.kwarg.arg), ())])))
    for k in a.kwonlyargs:
      if consts and k.arg in consts:
        env.set(k.arg, AV(const=consts[k.arg]))
      else:
        env.set(k.arg, AV(refs=frozenset([(('P', k.arg), ())])))
    # outer fixpoint over the flow-insensitive heap
    for round_ in range(8):
      before = self._heap_key()
      self.res.writes = []
      self.res.unknown_calls = []
      self.res.returns = []
      self.res.raises = []
      self.res.calls = []
      self.res.ext_calls = []
      self._frames = [Frame(fi, (), None)]
      self.exec_body(fi.node.body, env.copy())
      if self._heap_key() == before:
        break
    else:
      raise AnalysisError('points-to heap did not stabilise for %s' % fi.fq)
    self.res.rounds = round_ + 1
    return self.res

  def _bind_defaults(self, fi, env):
    a = fi.node.args
    # nothing to bind: parameters are symbolic; defaults matter only for consts

  def _heap_key(self):
    return tuple(sorted(((repr(s), c.item.key(), tuple(t.key() for t in c.tup) if c.tup else None,
                          tuple(sorted((k, v.key()) for k, v in c.fields.items())))
                         for s, c in self.heap.items()), key=lambda x: x[0]))

  def _self_obj(self, cls):
    site = ('obj', cls.fq)
    if site not in self.heap:
      c = Cont('obj', site)
      c.cls = cls
      self.heap[site] = c
    return AV(conts=frozenset([site]))

  # ================================================================= frames
  @property
  def frame(self):
    return self._frames[-1]

  def site(self, node, tag=''):
    return (self.frame.chain, tag, id(node), getattr(node, 'lineno', 0))

  def new_cont(self, kind, node, tag=''):
    s = self.site(node, tag)
    c = self.heap.get(s)
    if c is None:
      c = Cont(kind, s, node)
      self.heap[s] = c
    return c

  # ================================================================= statements
  def exec_body(self, body, env):
    for st in body:
      if env is None:
        break
      env = self.exec_stmt(st, env)
    return env

  def exec_stmt(self, st, env):
    self.res.stats['stmts'] += 1
    fr = self.frame
    fr.stmt = st
    m = getattr(self, 'st_' + type(st).__name__, None)
    if m is None:
      raise AnalysisError('unsupported statement %s at %s' % (type(st).__name__, loader.loc(fr.func, st)))
    return m(st, env)

  def st_Pass(self, st, env):
    return env

  st_Import = st_ImportFrom = st_Global = st_Nonlocal = st_Pass

  def st_Expr(self, st, env):
    self.ev(st.value, env)
    return env

  def st_Assert(self, st, env):
    self.ev(st.test, env)
    if st.msg:
      self.ev(st.msg, env)
    return env

  def st_Assign(self, st, env):
    v = self.ev(st.value, env)
    for t in st.targets:
      self.assign(t, v, env, st, st.value)
    return env

  def st_AnnAssign(self, st, env):
    if st.value is not None:
      v = self.ev(st.value, env)
      self.assign(st.target, v, env, st, st.value)
    return env

  def st_AugAssign(self, st, env):
    v = self.ev(st.value, env)
    t = st.target
    op = 'aug:' + type(st.op).__name__
    if isinstance(t, ast.Name):
      old = env.get(t.id) or BOT
      if old.conts:
        # list += iterable
        for s in old.conts:
          self._cont_add(self.heap[s], self.elem(v))
      env.set(t.id, join(old, v) if old.tracked() else old if not v.tracked() else join(old, v))
    elif isinstance(t, ast.Attribute):
      b = self.ev(t.value, env)
      self._attr_store(b, t.attr, v, env, st, t, op, st.value)
    elif isinstance(t, ast.Subscript):
      b = self.ev(t.value, env)
      self.ev(t.slice, env)
      self._sub_store(b, v, st, t, op, st.value)
    return env

  def st_Delete(self, st, env):
    for t in st.targets:
      if isinstance(t, ast.Subscript):
        b = self.ev(t.value, env)
        self.ev(t.slice, env)
        for (root, path) in b.refs:
          self.write(root, path, 'del', t, st, None, t.value)
      elif isinstance(t, ast.Attribute):
        b = self.ev(t.value, env)
        for (root, path) in b.refs:
          self.write(root, path + (t.attr,), 'del', t, st, None, t.value)
      elif isinstance(t, ast.Name):
        pass
    return env

  def st_Return(self, st, env):
    v = self.ev(st.value, env) if st.value is not None else AV(const=None)
    self.frame.returns.append(v)
    if len(self._frames) == 1:
      self.res.returns.append((v, st, self.frame.chain))
    return None

  def st_Raise(self, st, env):
    if st.exc is not None:
      self.ev(st.exc, env)
    if st.cause is not None:
      self.ev(st.cause, env)
    self.res.raises.append((st, self.frame.chain, self.frame.func))
    return None

  def st_Break(self, st, env):
    self.frame.loops[-1].breaks.append(env)
    return None

  def st_Continue(self, st, env):
    self.frame.loops[-1].continues.append(env)
    return None

  def st_FunctionDef(self, st, env):
    fi = self._nested_info(st)
    env.set(st.name, AV(funcs=frozenset([(fi, env)])))
    return env

  st_AsyncFunctionDef = st_FunctionDef

  def st_ClassDef(self, st, env):
    return env

  def _nested_info(self, node):
    f = self.frame.func
    for cand in f.module.all_functions.values():
      if cand.node is node:
        return cand
    raise AnalysisError('nested function %s not indexed' % node.name)

  def st_If(self, st, env):
    t = self.ev(st.test, env)
    truth = self.truth(st.test, t, env)
    fr = self.frame
    e1 = e2 = None
    if truth is not False:
      fr.conds.append((st.test, True))
      e1 = self.exec_body(st.body, env.copy())
      fr.conds.pop()
    if truth is not True:
      fr.conds.append((st.test, False))
      e2 = self.exec_body(st.orelse, env.copy())
      fr.conds.pop()
    return join_env(e1, e2)

  def truth(self, test, av, env):
    """Constant truth value of a test if decidable from flag constants."""
    if av.const is not NOCONST:
      try:
        return bool(av.const)
      except Exception:
        return None
    return None

  def _loop(self, st, env, bind):
    fr = self.frame
    lp = LoopCtx(st)
    fr.loops.append(lp)
    head = env
    out_body = None
    for _ in range(12):
      lp.breaks = []
      lp.continues = []
      cur = head.copy()
      bind(cur)
      out_body = self.exec_body(st.body, cur)
      nxt = join_env(head, out_body)
      for c in lp.continues:
        nxt = join_env(nxt, c)
      if nxt.key() == head.key():
        head = nxt
        break
      head = nxt
    else:
      raise AnalysisError('loop did not stabilise at %s' % loader.loc(fr.func, st))
    fr.loops.pop()
    exit_env = head
    for b in lp.breaks:
      exit_env = join_env(exit_env, b)
    if st.orelse:
      e = self.exec_body(st.orelse, head.copy())
      exit_env = join_env(e, None)
      for b in lp.breaks:
        exit_env = join_env(exit_env, b)
    return exit_env

  def st_For(self, st, env):
    def bind(cur):
      self.assign(st.target, self.elem(self.ev(st.iter, cur)), cur, st, None, is_loop_target=True)
    return self._loop(st, env, bind)

  st_AsyncFor = st_For

  def st_While(self, st, env):
    t = self.ev(st.test, env)
    if self.truth(st.test, t, env) is False:
      return self.exec_body(st.orelse, env) if st.orelse else env

    def bind(cur):
      self.ev(st.test, cur)
    out = self._loop(st, env, bind)
    return out

  def st_With(self, st, env):
    for item in st.items:
      v = self.ev(item.context_expr, env)
      if item.optional_vars is not None:
        self.assign(item.optional_vars, v, env, st, item.context_expr)
    return self.exec_body(st.body, env)

  st_AsyncWith = st_With

  def st_Try(self, st, env):
    fr = self.frame
    start = env.copy()
    body_out = self.exec_body(st.body, env.copy())
    mid = join_env(start, body_out)   # state when an exception may have been thrown
    outs = []
    if body_out is not None:
      e = self.exec_body(st.orelse, body_out.copy()) if st.orelse else body_out
      outs.append(e)
    for h in st.handlers:
      he = mid.copy()
      if h.name:
        he.set(h.name, BOT)
      fr.conds.append((h, True))
      outs.append(self.exec_body(h.body, he))
      fr.conds.pop()
    out = None
    for o in outs:
      out = join_env(out, o)
    if st.finalbody:
      fin_in = join_env(out, mid)
      fin_out = self.exec_body(st.finalbody, fin_in.copy())
      if out is None:
        return None
      return fin_out
    return out

  st_TryStar = st_Try

  # ================================================================= assignment
  def assign(self, target, v, env, stmt, value_node, is_loop_target=False):
    if isinstance(target, ast.Name):
      env.set(target.id, v)
    elif isinstance(target, (ast.Tuple, ast.List)):
      n = len(target.elts)
      comps = self.unpack(v, n, any(isinstance(e, ast.Starred) for e in target.elts))
      for e, c in zip(target.elts, comps):
        if isinstance(e, ast.Starred):
          self.assign(e.value, c, env, stmt, None)
        else:
          self.assign(e, c, env, stmt, None)
    elif isinstance(target, ast.Attribute):
      b = self.ev(target.value, env)
      self._attr_store(b, target.attr, v, env, stmt, target, 'store', value_node)
    elif isinstance(target, ast.Subscript):
      b = self.ev(target.value, env)
      self.ev(target.slice, env)
      self._sub_store(b, v, stmt, target, 'setitem', value_node)
    elif isinstance(target, ast.Starred):
      self.assign(target.value, v, env, stmt, None)
    else:
      raise AnalysisError('unsupported assignment target %s' % type(target).__name__)

  def unpack(self, v, n, starred):
    outs = [[] for _ in range(n)]
    exact = False
    for s in v.conts:
      c = self.heap[s]
      if c.tup is not None and len(c.tup) == n and not starred:
        for i in range(n):
          outs[i].append(c.tup[i])
        exact = True
        if not c.item.is_bottom():
          for i in range(n):
            outs[i].append(c.item)
      else:
        e = self._cont_elem(c)
        for i in range(n):
          outs[i].append(e)
    if v.refs:
      e = AV(refs=frozenset((r, p + ('[]',)) for r, p in v.refs))
      for i in range(n):
        outs[i].append(e)
    return [join(*o) for o in outs]

  def _attr_store(self, b, attr, v, env, stmt, node, op, value_node):
    for (root, path) in b.refs:
      self.write(root, self._ext(path, attr), op, node, stmt, value_node, node.value)
    for s in b.conts:
      c = self.heap[s]
      c.fields[attr] = join(c.fields.get(attr, BOT), v)

  def _sub_store(self, b, v, stmt, node, op, value_node):
    for (root, path) in b.refs:
      self.write(root, path, op, node, stmt, value_node, node.value)
    for s in b.conts:
      c = self.heap[s]
      if isinstance(node.slice, ast.Slice):
        self._cont_add(c, self.elem(v))
      else:
        self._cont_add(c, v)

  def _cont_add(self, c, v):
    if v.is_bottom() and v.const is NOCONST:
      return
    c.item = join(c.item, AV(v.refs, v.conts, v.funcs, v.static))

  def _ext(self, path, attr):
    if len(path) >= MAXPATH:
      return path if path[-1] == '*' else path + ('*',)
    return path + (attr,)

  def write(self, root, path, op, node, stmt, value_node, recv):
    fr = self.frame
    conds = tuple(c for f in self._frames for c in f.conds)
    loops = tuple(l.node for f in self._frames for l in f.loops)
    self.res.writes.append(Write(root, path, op, node, stmt or fr.stmt, fr.func, fr.chain, conds, loops, value_node, recv))

  # ================================================================= typing
  def type_of(self, root, path):
    """Schema kind at (root, path): ('message', Message, rep) etc, or None."""
    t = self.root_types.get(root)
    if root[0] == 'F' and root[2]:
      t = root[2]
    if not t:
      return None
    if t.startswith('list:'):
      t = t[5:]
      if path and path[0] == '[]':
        path = path[1:]
      elif path:
        # attribute directly on the list: not schema
        return None
      else:
        return None
    m = self.S.msg(t)
    if m is None:
      return None
    return self.S.walk_path(m, path)

  def _scalar_field(self, root, path, attr):
    """True if attribute `attr` at (root,path) is certainly a non-repeated scalar."""
    k = self.type_of(root, path)
    if k is not None:
      if k[0] != 'message' or k[2]:
        return False
      f = k[1].fields.get(attr)
      if f is None:
        return False
      return f.kind in ('scalar', 'enum') and not f.repeated
    # untyped: decide by name over the whole schema
    cands = self.field_index.get(attr)
    if not cands:
      return False
    return all(f.kind in ('scalar', 'enum') and not f.repeated for (_m, f) in cands)

  # ================================================================= expressions
  def ev(self, node, env):
    if node is None:
      return BOT
    m = getattr(self, 'ex_' + type(node).__name__, None)
    if m is None:
      raise AnalysisError('unsupported expression %s at %s' % (type(node).__name__, loader.loc(self.frame.func, node)))
    v = m(node, env)
    k = id(node)
    old = self.res.facts.get(k)
    self.res.facts[k] = v if old is None else join(old, v)
    return v

  def ex_Constant(self, node, env):
    return AV(const=node.value)

  def ex_JoinedStr(self, node, env):
    for v in node.values:
      self.ev(v, env)
    return BOT

  def ex_FormattedValue(self, node, env):
    self.ev(node.value, env)
    return BOT

  def ex_Name(self, node, env):
    v = env.get(node.id)
    if v is not None:
      return v
    fr = self.frame
    r = self.P.resolve_name(fr.func.module, node.id)
    if r is None:
      if node.id in ('True', 'False', 'None'):
        return AV(const={'True': True, 'False': False, 'None': None}[node.id])
      return AV(static=frozenset([('ext', node.id)]))   # builtin
    if isinstance(r, tuple) and r[0] == 'const':
      return self._module_const(r[1], r[2])
    return AV(static=frozenset([r]))

  def _module_const(self, mi, name):
    vals = mi.assigns.get(name, [])
    if len(vals) == 1 and isinstance(vals[0], ast.Constant):
      return AV(const=vals[0].value)
    if len(vals) == 1:
      r = self.P.resolve_expr(mi, vals[0])
      if r is not None and not (isinstance(r, tuple) and r[0] == 'const'):
        return AV(static=frozenset([r]))
    return AV(refs=frozenset([(('G', mi.name + '.' + name), ())])) if self._global_is_mutable(mi, name) else BOT

  def _global_is_mutable(self, mi, name):
    vals = mi.assigns.get(name, [])
    for v in vals:
      if isinstance(v, (ast.List, ast.Dict, ast.Set, ast.ListComp, ast.DictComp, ast.SetComp)):
        return True
      if isinstance(v, ast.Call):
        d = loader.dotted(v.func) or ''
        if d.split('.')[-1] in ('dict', 'list', 'set', 'defaultdict', 'OrderedDict', 'deque', 'Counter'):
          return True
    return False

  def ex_Attribute(self, node, env):
    b = self.ev(node.value, env)
    return self.attr(b, node.attr, node)

  def attr(self, b, attr, node=None):
    outs = []
    if b.static:
      st = set()
      for s in b.static:
        if isinstance(s, ClassInfo) and attr in ('__name__',):
          continue
        r = self.P.resolve_attr(s, attr) if not (isinstance(s, tuple) and s[0] in ('const', 'classconst')) else None
        if r is None:
          continue
        if isinstance(r, tuple) and r[0] == 'const':
          outs.append(self._module_const(r[1], r[2]))
        elif isinstance(r, tuple) and r[0] == 'classconst':
          v = r[1].attrs[r[2]]
          if isinstance(v, ast.Constant):
            outs.append(AV(const=v.value))
        else:
          st.add(r)
      if st:
        outs.append(AV(static=frozenset(st)))
    if b.refs:
      refs = set()
      for (root, path) in b.refs:
        if root[0] == 'G':
          continue
        if self._scalar_field(root, path, attr):
          continue
        refs.add((root, self._ext(path, attr)))
      if refs:
        outs.append(AV(refs=frozenset(refs)))
    for s in b.conts:
      c = self.heap[s]
      if attr in c.fields:
        outs.append(c.fields[attr])
      if c.kind == 'obj' and c.cls is not None:
        m = self.P.lookup_method(c.cls, attr)
        if m is not None:
          if m.is_property:
            outs.append(self._call_repo(m, [AV(conts=frozenset([s]))], {}, node, bound=True))
          else:
            outs.append(AV(funcs=frozenset([('bound', m, s)])))
        else:
          for k in self.P.mro(c.cls):
            if attr in k.attrs and isinstance(k.attrs[attr], ast.Constant):
              outs.append(AV(const=k.attrs[attr].value))
              break
    return join(*outs) if outs else BOT

  def ex_Subscript(self, node, env):
    b = self.ev(node.value, env)
    idx = self.ev(node.slice, env)
    is_slice = isinstance(node.slice, ast.Slice)
    outs = []
    if b.refs:
      refs = frozenset((r, p) for r, p in b.refs if r[0] != 'G')
      if refs:
        el = AV(refs=frozenset((r, self._ext(p, '[]')) for r, p in refs))
        if is_slice:
          c = self.new_cont('list', node, 'slice')
          self._cont_add(c, el)
          outs.append(AV(conts=frozenset([c.site])))
        else:
          outs.append(el)
    for s in b.conts:
      c = self.heap[s]
      if is_slice:
        outs.append(AV(conts=frozenset([s])))
      elif c.tup is not None and isinstance(idx.const, int) and not isinstance(idx.const, bool) and -len(c.tup) <= idx.const < len(c.tup):
        outs.append(join(c.tup[idx.const], c.item))
      else:
        outs.append(self._cont_elem(c))
    return join(*outs) if outs else BOT

  def ex_Slice(self, node, env):
    for x in (node.lower, node.upper, node.step):
      if x is not None:
        self.ev(x, env)
    return BOT

  def ex_Starred(self, node, env):
    return self.elem(self.ev(node.value, env))

  def ex_BinOp(self, node, env):
    l = self.ev(node.left, env)
    r = self.ev(node.right, env)
    if isinstance(node.op, (ast.Add, ast.Mult, ast.BitOr, ast.BitAnd, ast.Sub)) and (l.conts or r.conts or l.refs or r.refs):
      if isinstance(node.op, ast.Mult):
        # [x] * n : same elements
        src = l if (l.conts or l.refs) else r
        c = self.new_cont('list', node, 'mul')
        self._cont_add(c, self.elem(src))
        return AV(conts=frozenset([c.site]))
      c = self.new_cont('list', node, 'cat')
      if l.tracked():
        self._cont_add(c, self.elem(l))
      if r.tracked():
        self._cont_add(c, self.elem(r))
      return AV(conts=frozenset([c.site]))
    if l.const is not NOCONST and r.const is not NOCONST:
      try:
        return AV(const=_binop(node.op, l.const, r.const))
      except Exception:
        return BOT
    return BOT

  def ex_UnaryOp(self, node, env):
    v = self.ev(node.operand, env)
    if isinstance(node.op, ast.Not):
      if v.const is not NOCONST:
        return AV(const=not v.const)
      return BOT
    if v.const is not NOCONST and isinstance(v.const, (int, float)):
      try:
        if isinstance(node.op, ast.USub):
          return AV(const=-v.const)
        if isinstance(node.op, ast.UAdd):
          return AV(const=+v.const)
      except Exception:
        pass
    return BOT

  def ex_BoolOp(self, node, env):
    vals = [self.ev(v, env) for v in node.values]
    # constant short-circuit for flags
    if all(v.const is not NOCONST for v in vals):
      try:
        cur = vals[0].const
        for v in vals[1:]:
          if isinstance(node.op, ast.And):
            cur = cur and v.const
          else:
            cur = cur or v.const
        return AV(const=cur)
      except Exception:
        pass
    if isinstance(node.op, ast.And) and any(v.const is not NOCONST and not v.const for v in vals):
      return AV(const=False) if all(v.const is NOCONST or isinstance(v.const, bool) for v in vals) else join(*[AV(v.refs, v.conts, v.funcs, v.static) for v in vals])
    if isinstance(node.op, ast.Or) and any(v.const is True for v in vals):
      return AV(const=True)
    return join(*[AV(v.refs, v.conts, v.funcs, v.static) for v in vals])

  def ex_Compare(self, node, env):
    l = self.ev(node.left, env)
    rs = [self.ev(c, env) for c in node.comparators]
    if len(rs) == 1 and l.const is not NOCONST and rs[0].const is not NOCONST:
      a, b = l.const, rs[0].const
      op = node.ops[0]
      try:
        if isinstance(op, ast.Is):
          return AV(const=a is b) if (a is None or b is None or isinstance(a, bool)) else BOT
        if isinstance(op, ast.IsNot):
          return AV(const=a is not b) if (a is None or b is None or isinstance(a, bool)) else BOT
        if isinstance(op, ast.Eq):
          return AV(const=a == b)
        if isinstance(op, ast.NotEq):
          return AV(const=a != b)
      except Exception:
        return BOT
    if len(rs) == 1 and isinstance(node.ops[0], (ast.Is, ast.IsNot)):
      # tracked object compared with None: certainly not None if it is a message param?  unknown.
      pass
    return BOT

  def ex_IfExp(self, node, env):
    t = self.ev(node.test, env)
    truth = self.truth(node.test, t, env)
    if truth is True:
      return self.ev(node.body, env)
    if truth is False:
      return self.ev(node.orelse, env)
    return join(self.ev(node.body, env), self.ev(node.orelse, env))

  def ex_NamedExpr(self, node, env):
    v = self.ev(node.value, env)
    env.set(node.target.id, v)
    return v

  def ex_Lambda(self, node, env):
    return AV(funcs=frozenset([(node, env)]))

  def ex_Await(self, node, env):
    return self.ev(node.value, env)

  def ex_Yield(self, node, env):
    v = self.ev(node.value, env) if node.value else BOT
    self.frame.returns.append(self._wrap_item(node, v))
    return BOT

  def ex_YieldFrom(self, node, env):
    v = self.ev(node.value, env)
    self.frame.returns.append(v)
    return BOT

  def _wrap_item(self, node, v):
    c = self.new_cont('gen', node, 'yield')
    self._cont_add(c, v)
    return AV(conts=frozenset([c.site]))

  def _display(self, node, env, kind):
    c = self.new_cont(kind, node, 'display')
    comps = []
    star = False
    for e in node.elts:
      if isinstance(e, ast.Starred):
        star = True
        self._cont_add(c, self.elem(self.ev(e.value, env)))
      else:
        comps.append(self.ev(e, env))
    if star or kind == 'set':
      for x in comps:
        self._cont_add(c, x)
      c.tup = None
    else:
      if c.tup is None or len(c.tup) != len(comps):
        c.tup = comps
      else:
        c.tup = [join(a, b) for a, b in zip(c.tup, comps)]
    return AV(conts=frozenset([c.site]))

  def ex_List(self, node, env):
    return self._display(node, env, 'list')

  def ex_Tuple(self, node, env):
    return self._display(node, env, 'tuple')

  def ex_Set(self, node, env):
    return self._display(node, env, 'set')

  def ex_Dict(self, node, env):
    c = self.new_cont('dict', node, 'display')
    for k, v in zip(node.keys, node.values):
      if k is not None:
        self.ev(k, env)
        self._cont_add(c, self.ev(v, env))
      else:
        self._cont_add(c, self.elem(self.ev(v, env)))
    return AV(conts=frozenset([c.site]))

  def _comp(self, node, env, elt_fn, kind):
    cur = Env(env)
    for g in node.generators:
      it = self.ev(g.iter, cur)
      self.assign(g.target, self.elem(it), cur, None, None, is_loop_target=True)
      for cond in g.ifs:
        self.ev(cond, cur)
    c = self.new_cont(kind, node, 'comp')
    self._cont_add(c, elt_fn(cur))
    return AV(conts=frozenset([c.site]))

  def ex_ListComp(self, node, env):
    return self._comp(node, env, lambda e: self.ev(node.elt, e), 'list')

  def ex_SetComp(self, node, env):
    return self._comp(node, env, lambda e: self.ev(node.elt, e), 'set')

  def ex_GeneratorExp(self, node, env):
    return self._comp(node, env, lambda e: self.ev(node.elt, e), 'gen')

  def ex_DictComp(self, node, env):
    def f(e):
      self.ev(node.key, e)
      return self.ev(node.value, e)
    return self._comp(node, env, f, 'dict')

  # ---------------------------------------------------------------- elements
  def _cont_elem(self, c):
    if c.tup:
      return join(c.item, *c.tup)
    return c.item

  def elem(self, v):
    outs = []
    if v.refs:
      refs = frozenset((r, self._ext(p, '[]')) for r, p in v.refs if r[0] != 'G')
      if refs:
        outs.append(AV(refs=refs))
    for s in v.conts:
      outs.append(self._cont_elem(self.heap[s]))
    return join(*outs) if outs else BOT

  def deep_refs(self, v, seen=None):
    """All message refs reachable from v through Python containers."""
    seen = seen if seen is not None else set()
    refs = set(v.refs)
    for s in v.conts:
      if s in seen:
        continue
      seen.add(s)
      c = self.heap[s]
      refs |= self.deep_refs(c.item, seen)
      for t in c.tup or []:
        refs |= self.deep_refs(t, seen)
      for f in c.fields.values():
        refs |= self.deep_refs(f, seen)
    return refs

  # ================================================================= calls
  def ex_Call(self, node, env):
    fr = self.frame
    # evaluate arguments
    args = []
    for a in node.args:
      if isinstance(a, ast.Starred):
        sv = self.ev(a.value, env)
        args.append(('*', sv))
      else:
        args.append(('', self.ev(a, env)))
    kwargs = {}
    for k in node.keywords:
      v = self.ev(k.value, env)
      if k.arg is None:
        kwargs['**'] = v
      else:
        kwargs[k.arg] = v
    f = node.func
    if isinstance(f, ast.Attribute):
      b = self.ev(f.value, env)
      if b.static and not b.refs and not b.conts:
        callee = self.attr(b, f.attr, f)
        self.res.facts[id(f)] = callee
        return self._call_value(callee, args, kwargs, node, env, loader.dotted(f) or f.attr)
      # super().m(...)
      if isinstance(f.value, ast.Call) and isinstance(f.value.func, ast.Name) and f.value.func.id == 'super':
        return self._call_super(f.attr, args, kwargs, node, env)
      return self._call_method(b, f.attr, args, kwargs, node, env)
    callee = self.ev(f, env)
    name = loader.dotted(f) or '<expr>'
    return self._call_value(callee, args, kwargs, node, env, name)

  def _flat_args(self, args, kwargs):
    out = [v for (_s, v) in args]
    out.extend(kwargs.values())
    return out

  def _call_value(self, callee, args, kwargs, node, env, name):
    outs = []
    handled = False
    for fn in callee.funcs:
      handled = True
      if fn[0] == 'bound':
        _b, m, s = fn
        outs.append(self._call_repo(m, [AV(conts=frozenset([s]))] + [v for (_s, v) in args], kwargs, node, bound=True))
      else:
        target, defenv = fn
        if isinstance(target, ast.Lambda):
          outs.append(self._call_lambda(target, defenv, [v for (_s, v) in args], kwargs, node))
        else:
          outs.append(self._call_repo(target, [v for (_s, v) in args], kwargs, node, closure_env=defenv))
    for s in callee.static:
      handled = True
      if isinstance(s, FuncInfo):
        outs.append(self._call_repo(s, [v for (_s, v) in args], kwargs, node))
      elif isinstance(s, ClassInfo):
        outs.append(self._construct(s, args, kwargs, node))
      elif isinstance(s, tuple) and s[0] == 'ext':
        outs.append(self._call_ext(s[1], args, kwargs, node, env))
      elif isinstance(s, ModuleInfo):
        pass
    if callee.refs or not handled:
      # call of an unknown callable (parameter, attribute of unknown object)
      tracked = [v for v in self._flat_args(args, kwargs) if self._tracked_msg(v)]
      if tracked:
        self.res.unknown_calls.append(UnknownCall(name, node, self.frame.func, self.frame.chain, tracked, 'unresolved'))
      self.res.stats['calls_unknown'] += 1
      outs.append(self._alias_of(self._flat_args(args, kwargs)))
    return join(*outs) if outs else BOT

  def _tracked_msg(self, v):
    """Does v give access to a protobuf message (not merely scalars)?"""
    return bool(self.deep_refs(v))

  def _alias_of(self, vals):
    refs = set()
    for v in vals:
      refs |= self.deep_refs(v)
    return AV(refs=frozenset(refs)) if refs else BOT

  def _call_lambda(self, lam, defenv, args, kwargs, node):
    if self._depth_exceeded(lam):
      return self._alias_of(args)
    cur = Env(defenv)
    params = [a.arg for a in lam.args.posonlyargs + lam.args.args]
    for p, v in zip(params, args):
      cur.set(p, v)
    for p in params[len(args):]:
      cur.set(p, kwargs.get(p, BOT))
    self._lam_stack = getattr(self, '_lam_stack', [])
    self._lam_stack.append(lam)
    try:
      return self.ev(lam.body, cur)
    finally:
      self._lam_stack.pop()

  def _depth_exceeded(self, target):
    st = getattr(self, '_lam_stack', [])
    return target in st or len(st) > 6

  def _bind_args(self, fi, posargs, kwargs, skip_self=False):
    a = fi.node.args
    params = [x.arg for x in a.posonlyargs + a.args]
    bound = {}
    i = 0
    for p, v in zip(params, posargs):
      bound[p] = v
      i += 1
    extra = posargs[len(params):]
    for k, v in kwargs.items():
      if k == '**':
        continue
      bound[k] = v
    # defaults
    defaults = a.defaults
    dparams = params[len(params) - len(defaults):] if defaults else []
    for p, d in zip(dparams, defaults):
      if p not in bound:
        bound[p] = ('default', d)
    for k, d in zip(a.kwonlyargs, a.kw_defaults):
      if k.arg not in bound and d is not None:
        bound[k.arg] = ('default', d)
    return params, bound, extra

  def _call_repo(self, fi, posargs, kwargs, node, closure_env=None, bound=False):
    self.res.stats['calls_resolved'] += 1
    self.res.calls.append((fi, node, self.frame.chain))
    # recursion / depth guard
    chain_funcs = [f.func for f in self._frames]
    if fi in chain_funcs or len(self._frames) > self.max_depth:
      tracked = [v for v in posargs + list(kwargs.values()) if self._tracked_msg(v)]
      if len(self._frames) > self.max_depth and tracked:
        self.res.unknown_calls.append(UnknownCall(fi.fq, node, self.frame.func, self.frame.chain, tracked, 'depth'))
      # recursion: bottom (the outer fixpoint over the heap re-runs the body)
      return self._rec_ret.get(fi, BOT) if hasattr(self, '_rec_ret') else BOT
    if fi.cls is not None and not bound and closure_env is None and not fi.is_static and fi.parent is None:
      # unbound method called through the class: first arg is self
      pass
    params, bnd, extra = self._bind_args(fi, posargs, kwargs)
    env = Env(closure_env if closure_env is not None else None)
    chain = self.frame.chain + ((fi.qualname, getattr(node, 'lineno', 0)),)
    fr = Frame(fi, chain, node)
    self._frames.append(fr)
    self.res.stats['inlined'] += 1
    try:
      for p in params:
        v = bnd.get(p)
        if isinstance(v, tuple) and v and v[0] == 'default':
          # evaluate default in module context
          v = self.ev(v[1], Env())
        if v is None:
          v = BOT
        env.set(p, v)
      for k in fi.node.args.kwonlyargs:
        v = bnd.get(k.arg, BOT)
        if isinstance(v, tuple) and v and v[0] == 'default':
          v = self.ev(v[1], Env())
        env.set(k.arg, v)
      if fi.node.args.vararg:
        c = self.new_cont('tuple', fi.node, 'vararg')
        for e in extra:
          self._cont_add(c, e)
        for (s, v) in []:
          pass
        env.set(fi.node.args.vararg.arg, AV(conts=frozenset([c.site])))
      if fi.node.args.kwarg:
        env.set(fi.node.args.kwarg.arg, BOT)
      self.exec_body(fi.node.body, env)
    finally:
      self._frames.pop()
    ret = join(*fr.returns) if fr.returns else AV(const=None)
    if not hasattr(self, '_rec_ret'):
      self._rec_ret = {}
    self._rec_ret[fi] = join(self._rec_ret.get(fi, BOT), AV(ret.refs, ret.conts, ret.funcs, ret.static))
    if _is_generator(fi.node):
      return join(*fr.returns) if fr.returns else BOT
    return ret

  def _construct(self, ci, args, kwargs, node):
    site = ('obj', ci.fq)
    if site not in self.heap:
      c = Cont('obj', site)
      c.cls = ci
      self.heap[site] = c
    selfv = AV(conts=frozenset([site]))
    init = self.P.lookup_method(ci, '__init__')
    if init is not None:
      self._call_repo(init, [selfv] + [v for (_s, v) in args], kwargs, node, bound=True)
    return selfv

  def _call_super(self, mname, args, kwargs, node, env):
    fr = self.frame
    cls = fr.func.cls
    if cls is None:
      return BOT
    selfv = env.get('self') or BOT
    outs = []
    for k in self.P.mro(cls)[1:]:
      if mname in k.methods:
        outs.append(self._call_repo(k.methods[mname], [selfv] + [v for (_s, v) in args], kwargs, node, bound=True))
        break
    return join(*outs) if outs else BOT

  # ---------------------------------------------------------------- methods
  def _call_method(self, b, m, args, kwargs, node, env):
    outs = []
    flat = self._flat_args(args, kwargs)
    recv = node.func.value
    if b.refs:
      refs = frozenset((r, p) for r, p in b.refs)
      if m in PB_WRITE_METHODS:
        for (root, path) in refs:
          if root[0] == 'G':
            continue
          p2 = path
          if m == 'ClearField' and args and args[0][1].const is not NOCONST and isinstance(args[0][1].const, str):
            p2 = self._ext(path, args[0][1].const)
          self.write(root, p2, 'call:' + m, node, None, node.args[0] if node.args else None, recv)
        if m == 'add':
          outs.append(AV(refs=frozenset((r, self._ext(p, '[]')) for r, p in refs if r[0] != 'G')))
        elif m == 'pop':
          outs.append(AV(refs=frozenset((r, self._ext(p, '[]')) for r, p in refs if r[0] != 'G')))
      elif m in PB_READ_METHODS:
        pass
      else:
        # unknown method on something that may be a message: python-container
        # methods on a value that merely *may* be a message are handled below
        if not b.conts and m not in PY_NEUTRAL and m not in PY_RET_ELEM and m not in PY_RET_SELF:
          self.res.unknown_calls.append(UnknownCall('.' + m, node, self.frame.func, self.frame.chain, [b], 'method'))
        if m in PY_RET_ELEM:
          outs.append(AV(refs=frozenset((r, self._ext(p, '[]')) for r, p in refs if r[0] != 'G')))
      for (root, path) in refs:
        if root[0] == 'G' and (m in PB_WRITE_METHODS or m in PY_ADD_ONE or m in PY_ADD_MANY or m in ('setdefault', 'pop', 'popitem', 'sort', 'reverse', 'remove', 'clear', 'discard')):
          self.write(root, path, 'call:' + m, node, None, None, recv)
    for s in b.conts:
      c = self.heap[s]
      if c.kind == 'obj':
        meth = self.P.lookup_method(c.cls, m) if c.cls is not None else None
        if meth is not None:
          cands = [meth]
          for sub in self.P.subclasses(c.cls):
            if m in sub.methods and sub.methods[m] not in cands:
              cands.append(sub.methods[m])
          for mm in cands:
            if mm.is_static:
              outs.append(self._call_repo(mm, [v for (_s, v) in args], kwargs, node))
            else:
              outs.append(self._call_repo(mm, [AV(conts=frozenset([s]))] + [v for (_s, v) in args], kwargs, node, bound=True))
        elif m in c.fields:
          outs.append(self._call_value(c.fields[m], args, kwargs, node, env, m))
        continue
      if m in PY_ADD_ONE:
        for v in flat:
          self._cont_add(c, v)
        if c.tup is not None and m != 'add':
          for t in c.tup:
            self._cont_add(c, t)
          c.tup = None
      elif m == 'insert':
        if len(flat) > 1:
          self._cont_add(c, flat[1])
      elif m in PY_ADD_MANY:
        for v in flat:
          self._cont_add(c, self.elem(v))
        if m in ('union', 'intersection', 'difference'):
          outs.append(AV(conts=frozenset([s])))
      elif m == 'setdefault':
        if len(flat) > 1:
          self._cont_add(c, flat[1])
        outs.append(self._cont_elem(c))
      elif m in PY_RET_ELEM:
        outs.append(self._cont_elem(c))
        if m == 'get' and len(flat) > 1:
          outs.append(flat[1])
      elif m in PY_RET_SELF:
        outs.append(AV(conts=frozenset([s])))
      elif m == 'items':
        c2 = self.new_cont('list', node, 'items')
        t = self.new_cont('tuple', node, 'item')
        t.tup = [BOT, self._cont_elem(c)]
        self._cont_add(c2, AV(conts=frozenset([t.site])))
        outs.append(AV(conts=frozenset([c2.site])))
      else:
        pass
    if not b.refs and not b.conts:
      outs.append(self._call_value(self.attr(b, m), args, kwargs, node, env, '.' + m) if (b.static or b.funcs) else BOT)
      if not (b.static or b.funcs):
        # method of an untracked object (str, numpy array, file, ...)
        tracked = [v for v in flat if self._tracked_msg(v)]
        if tracked and m not in PY_NEUTRAL:
          self.res.unknown_calls.append(UnknownCall('.' + m, node, self.frame.func, self.frame.chain, tracked, 'method'))
        for v in flat:
          for fn in v.funcs:
            pass
    return join(*outs) if outs else BOT

  # ---------------------------------------------------------------- library
  def _call_ext(self, name, args, kwargs, node, env):
    self.res.stats['calls_lib'] += 1
    self.res.ext_calls.append((name, node, self.frame.func, self.frame.chain))
    flat = self._flat_args(args, kwargs)
    pos = [v for (_s, v) in args]
    base = name
    if name.startswith('note_seq.protobuf.music_pb2.') or name.startswith('note_seq.protobuf.generator_pb2.'):
      mt = name.split('.', 3)[3]
      if self.S.msg(mt) is not None or name.startswith('note_seq.protobuf.generator_pb2.'):
        root = ('F', self.site(node, 'new'), mt if self.S.msg(mt) is not None else None)
        return AV(refs=frozenset([(root, ())]))
      return BOT
    if name == 'copy.deepcopy':
      return self._deepcopy(pos[0] if pos else BOT, node)
    if name in ('zip', 'itertools.izip', 'itertools.zip_longest', 'six.moves.zip'):
      c = self.new_cont('list', node, 'zip')
      t = self.new_cont('tuple', node, 'ziptup')
      comps = []
      for (s, v) in args:
        if s == '*':
          comps = None
          break
        comps.append(self.elem(v))
      if comps is None:
        allv = BOT
        for (s, v) in args:
          allv = join(allv, self.elem(self.elem(v)) if s == '*' else self.elem(v))
        self._cont_add(t, allv)
        t.tup = None
      else:
        t.tup = comps if t.tup is None or len(t.tup) != len(comps) else [join(a, b) for a, b in zip(t.tup, comps)]
      c.item = join(c.item, AV(conts=frozenset([t.site])))
      return AV(conts=frozenset([c.site]))
    if name == 'enumerate':
      c = self.new_cont('list', node, 'enum')
      t = self.new_cont('tuple', node, 'enumtup')
      e = self.elem(pos[0]) if pos else BOT
      t.tup = [BOT, e] if t.tup is None else [BOT, join(t.tup[1], e)]
      c.item = join(c.item, AV(conts=frozenset([t.site])))
      return AV(conts=frozenset([c.site]))
    if name == 'map':
      c = self.new_cont('list', node, 'map')
      if pos:
        fv = pos[0]
        elems = [self.elem(v) for v in pos[1:]]
        self._cont_add(c, self._call_value(fv, [('', e) for e in elems], {}, node, env, 'map-fn'))
      return AV(conts=frozenset([c.site]))
    if name in ('dict', 'collections.OrderedDict'):
      c = self.new_cont('dict', node, 'dict')
      for v in pos:
        e = self.elem(v)
        # element may be (k, v) tuples or a dict
        self._cont_add(c, self.elem(e))
        for s in v.conts:
          if self.heap[s].kind == 'dict':
            self._cont_add(c, self._cont_elem(self.heap[s]))
      for k, v in kwargs.items():
        self._cont_add(c, v)
      return AV(conts=frozenset([c.site]))
    if name == 'collections.defaultdict':
      c = self.new_cont('dict', node, 'ddict')
      if pos:
        fv = pos[0]
        inner = self._call_value(fv, [], {}, node, env, 'default-factory') if (fv.static or fv.funcs) else BOT
        self._cont_add(c, inner)
      return AV(conts=frozenset([c.site]))
    if name in LIB_FRESH:
      c = self.new_cont('list', node, name)
      for (s, v) in args:
        e = self.elem(v)
        if name.startswith('itertools.chain') :
          e = self.elem(e) if (s == '*' or name.endswith('from_iterable')) else e
        self._cont_add(c, e)
      # key= lambdas: evaluate for effects
      kf = kwargs.get('key')
      if kf is not None and pos:
        self._call_value(kf, [('', self.elem(pos[0]))], {}, node, env, 'key-fn')
      if name == 'filter' and len(pos) == 2:
        c.item = BOT if False else c.item
        self._call_value(pos[0], [('', self.elem(pos[1]))], {}, node, env, 'filter-fn')
        c2 = self.new_cont('list', node, 'filter2')
        self._cont_add(c2, self.elem(pos[1]))
        return AV(conts=frozenset([c2.site]))
      return AV(conts=frozenset([c.site]))
    if name in LIB_ELEM:
      kf = kwargs.get('key')
      outs = []
      for (s, v) in args:
        outs.append(self.elem(v))
        if name in ('copy.copy', 'getattr'):
          outs.append(v)
      if kf is not None and pos:
        self._call_value(kf, [('', self.elem(pos[0]))], {}, node, env, 'key-fn')
      if 'default' in kwargs:
        outs.append(kwargs['default'])
      if name == 'getattr' and len(pos) >= 2 and isinstance(pos[1].const, str):
        return self.attr(pos[0], pos[1].const, node)
      return join(*outs) if outs else BOT
    if name in ('setattr', 'exec', 'eval', 'globals', 'locals', 'delattr', '__import__', 'compile'):
      raise AnalysisError('reflective builtin %s used at %s' % (name, loader.loc(self.frame.func, node)))
    if name in LIB_PURE or name.startswith(LIB_PURE_PREFIX) or (name.split('.')[0] in ('note_seq',) and False):
      # function-valued arguments are called (e.g. numpy.vectorize) - ignore
      return BOT
    if '.' not in name and name[:1].isupper():
      return BOT   # exception classes and similar builtins
    tracked = [v for v in flat if self._tracked_msg(v)]
    if tracked:
      self.res.unknown_calls.append(UnknownCall(name, node, self.frame.func, self.frame.chain, tracked, 'ext'))
    self.res.stats['calls_unknown'] += 1
    return self._alias_of(flat)

  def _deepcopy(self, v, node):
    outs = []
    types = set()
    for (root, path) in v.refs:
      k = self.type_of(root, path)
      if k is not None and k[0] == 'message' and not k[2]:
        types.add(k[1].qualname)
      else:
        types.add(None)
    if v.refs:
      for t in types:
        root = ('F', self.site(node, 'deepcopy:%s' % t), t)
        outs.append(AV(refs=frozenset([(root, ())])))
    if v.conts:
      c = self.new_cont('list', node, 'deepcopy-cont')
      for s in v.conts:
        src = self.heap[s]
        e = self._cont_elem(src)
        self._cont_add(c, self._deepcopy(e, node) if e.tracked() else BOT)
        for k, fv in src.fields.items():
          c.fields[k] = join(c.fields.get(k, BOT), self._deepcopy(fv, node) if fv.tracked() else fv)
        if src.kind == 'obj':
          c.kind = 'obj'
          c.cls = src.cls
      outs.append(AV(conts=frozenset([c.site])))
    return join(*outs) if outs else BOT


class LoopCtx:
  __slots__ = ('node', 'breaks', 'continues')

  def __init__(self, node):
    self.node = node
    self.breaks = []
    self.continues = []


class Frame:
  __slots__ = ('func', 'chain', 'call', 'conds', 'loops', 'returns', 'stmt')

  def __init__(self, func, chain, call):
    self.func = func
    self.chain = chain
    self.call = call
    self.conds = []
    self.loops = []
    self.returns = []
    self.stmt = None


def _is_generator(fnode):
  for n in ast.walk(fnode):
    if isinstance(n, (ast.Yield, ast.YieldFrom)):
      return True
  return False


def _binop(op, a, b):
  if isinstance(op, ast.Add):
    return a + b
  if isinstance(op, ast.Sub):
    return a - b
  if isinstance(op, ast.Mult):
    return a * b
  if isinstance(op, ast.Div):
    return a / b
  if isinstance(op, ast.FloorDiv):
    return a // b
  if isinstance(op, ast.Mod):
    return a % b
  if isinstance(op, ast.Pow):
    return a ** b
  raise ValueError
