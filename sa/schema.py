"""§2.4: the NoteSequence schema, read from music.proto (text) and cross-checked
against music_pb2.pyi (parsed with ast).  music_pb2 itself is never imported."""
import ast
import os
import re

from .loader import AnalysisError, REPO

SCALARS = {'double', 'float', 'int32', 'int64', 'uint32', 'uint64', 'sint32', 'sint64',
           'fixed32', 'fixed64', 'sfixed32', 'sfixed64', 'bool', 'string', 'bytes'}
INT32 = {'int32', 'sint32', 'sfixed32'}
INTS = {'int32', 'int64', 'uint32', 'uint64', 'sint32', 'sint64', 'fixed32', 'fixed64', 'sfixed32', 'sfixed64'}


class Field:
  __slots__ = ('name', 'type', 'repeated', 'oneof', 'kind', 'msg')

  def __init__(self, name, type_, repeated, oneof):
    self.name = name
    self.type = type_        # scalar name or qualified message/enum name
    self.repeated = repeated
    self.oneof = oneof
    self.kind = None         # 'scalar' | 'enum' | 'message'
    self.msg = None          # Message for kind == 'message'

  def __repr__(self):
    return '<Field %s%s %s>' % ('repeated ' if self.repeated else '', self.type, self.name)


class Message:
  def __init__(self, qualname):
    self.qualname = qualname
    self.fields = {}
    self.enums = {}      # enum name -> {value name: int}
    self.nested = {}     # name -> Message

  def __repr__(self):
    return '<Message %s>' % self.qualname


class Schema:
  def __init__(self, repo=None, overlay=None):
    repo = repo or REPO
    path = os.path.join(repo, 'note_seq', 'protobuf', 'music.proto')
    try:
      text = (overlay or {}).get('note_seq/protobuf/music.proto') or open(path).read()
    except OSError as e:
      raise AnalysisError('cannot read %s: %s' % (path, e))
    self.skip_pyi = bool(overlay and 'note_seq/protobuf/music.proto' in overlay)
    self.messages = {}   # qualified name -> Message
    self.enums = {}      # qualified name -> {name:int}
    self._parse(text)
    self._link()
    if not self.skip_pyi:
      self._cross_check(os.path.join(repo, 'note_seq', 'protobuf', 'music_pb2.pyi'))
    self.ns = self.messages.get('NoteSequence')
    if self.ns is None:
      raise AnalysisError('NoteSequence message not found in music.proto')

  # ------------------------------------------------------------------ parse
  def _parse(self, text):
    text = re.sub(r'//[^\n]*', '', text)
    text = re.sub(r'/\*.*?\*/', '', text, flags=re.S)
    toks = re.findall(r'[A-Za-z_][\w.]*|-?\d+|"[^"]*"|[{}=;<>,\[\]()]', text)
    self._toks = toks
    self._i = 0
    while self._i < len(toks):
      t = toks[self._i]
      if t == 'message':
        self._message('')
      elif t == 'enum':
        self._enum('', None)
      else:
        self._i += 1

  def _message(self, prefix):
    toks = self._toks
    assert toks[self._i] == 'message'
    name = toks[self._i + 1]
    qn = prefix + name
    m = Message(qn)
    self.messages[qn] = m
    self._i += 2
    assert toks[self._i] == '{'
    self._i += 1
    self._body(m, qn + '.', None)
    return m

  def _body(self, m, prefix, oneof):
    toks = self._toks
    while toks[self._i] != '}':
      t = toks[self._i]
      if t == 'message':
        sub = self._message(prefix)
        m.nested[sub.qualname.split('.')[-1]] = sub
      elif t == 'enum':
        self._enum(prefix, m)
      elif t == 'oneof':
        oname = toks[self._i + 1]
        self._i += 3
        self._body(m, prefix, oname)
      elif t in ('reserved', 'option'):
        while toks[self._i] != ';':
          self._i += 1
        self._i += 1
      elif t == ';':
        self._i += 1
      else:
        repeated = False
        if t in ('repeated', 'optional'):
          repeated = t == 'repeated'
          self._i += 1
        ftype = toks[self._i]
        fname = toks[self._i + 1]
        if toks[self._i + 2] != '=':
          raise AnalysisError('music.proto: cannot parse field near %r' % toks[self._i:self._i + 4])
        self._i += 4
        while toks[self._i] != ';':
          self._i += 1
        self._i += 1
        m.fields[fname] = Field(fname, ftype, repeated, oneof)
    self._i += 1

  def _enum(self, prefix, m):
    toks = self._toks
    name = toks[self._i + 1]
    self._i += 3
    vals = {}
    while toks[self._i] != '}':
      if toks[self._i] in ('option', 'reserved'):
        while toks[self._i] != ';':
          self._i += 1
        self._i += 1
        continue
      vname = toks[self._i]
      if toks[self._i + 1] != '=':
        raise AnalysisError('music.proto: cannot parse enum near %r' % toks[self._i:self._i + 4])
      vals[vname] = int(toks[self._i + 2])
      self._i += 3
      while toks[self._i] != ';':
        self._i += 1
      self._i += 1
    self._i += 1
    self.enums[prefix + name] = vals
    if m is not None:
      m.enums[name] = vals

  def _link(self):
    for qn, m in self.messages.items():
      for f in m.fields.values():
        if f.type in SCALARS:
          f.kind = 'scalar'
          continue
        # resolve innermost-first
        scope = qn.split('.')
        found = None
        while True:
          cand = '.'.join(scope + [f.type])
          if cand in self.messages:
            found = ('message', cand)
            break
          if cand in self.enums:
            found = ('enum', cand)
            break
          if not scope:
            break
          scope.pop()
        if found is None:
          raise AnalysisError('music.proto: unresolved type %s of %s.%s' % (f.type, qn, f.name))
        f.kind, f.type = found
        if f.kind == 'message':
          f.msg = self.messages[f.type]

  def _cross_check(self, pyi):
    try:
      tree = ast.parse(open(pyi).read())
    except (OSError, SyntaxError) as e:
      raise AnalysisError('cannot parse music_pb2.pyi: %s' % e)

    def walk(body, prefix):
      for node in body:
        if isinstance(node, ast.ClassDef):
          qn = prefix + node.name
          if qn in self.messages:
            slots = None
            for sub in node.body:
              if isinstance(sub, ast.Assign) and any(isinstance(t, ast.Name) and t.id == '__slots__' for t in sub.targets):
                try:
                  slots = set(ast.literal_eval(sub.value))
                except Exception:
                  slots = None
            if slots is not None and slots != set(self.messages[qn].fields):
              raise AnalysisError('schema disagreement for %s: proto %s vs pyi %s' % (
                  qn, sorted(self.messages[qn].fields), sorted(slots)))
            self._pyi_checked += 1
          walk(node.body, prefix + node.name + '.')
    self._pyi_checked = 0
    walk(tree.body, '')
    if self._pyi_checked < 15:
      raise AnalysisError('music_pb2.pyi cross-check covered only %d messages' % self._pyi_checked)

  # ------------------------------------------------------------------ query
  def msg(self, qn):
    return self.messages.get(qn)

  def walk_path(self, msg, path):
    """Type at the end of `path` (tuple of field names and '[]') from `msg`.
    Returns ('message', Message, repeated?) | ('scalar', type, repeated?) |
    ('enum', type, repeated?) | None if the path leaves the schema."""
    cur = ('message', msg, False)
    for p in path:
      if cur is None:
        return None
      if p == '[]':
        if not cur[2]:
          return None
        cur = (cur[0], cur[1], False)
        continue
      if p == '*':
        return None
      if cur[0] != 'message' or cur[2]:
        return None
      f = cur[1].fields.get(p)
      if f is None:
        return None
      if f.kind == 'message':
        cur = ('message', f.msg, f.repeated)
      else:
        cur = (f.kind, f.type, f.repeated)
    return cur

  def time_fields(self):
    """Repeated message fields of NoteSequence whose element has `double time`."""
    out = []
    for f in self.ns.fields.values():
      if f.repeated and f.kind == 'message' and 'time' in f.msg.fields and f.msg.fields['time'].type == 'double':
        out.append(f.name)
    return out

  def field_names(self):
    """Every field name in any message (for untyped attribute reads)."""
    names = {}
    for m in self.messages.values():
      for f in m.fields.values():
        names.setdefault(f.name, []).append((m, f))
    return names

  def enum_value(self, dotted_name):
    """'NoteSequence.KeySignature.C' -> int"""
    parts = dotted_name.split('.')
    for k in range(len(parts) - 1, 0, -1):
      en = '.'.join(parts[:k])
      # enum values live in the *enclosing* scope of the enum in protobuf python
      for qn, vals in self.enums.items():
        scope = qn.rsplit('.', 1)[0] if '.' in qn else ''
        if (scope == en or qn == en) and parts[k] in vals and k == len(parts) - 1:
          return vals[parts[k]]
    return None
