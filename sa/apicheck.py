"""§3.9 API: attributes read on NoteSequence-typed values must be schema fields
(or protobuf message / repeated-container methods)."""
import ast

from .loader import dotted, norm_text

PB_METHODS = {'CopyFrom', 'MergeFrom', 'Clear', 'ClearField', 'HasField', 'WhichOneof', 'SerializeToString', 'ParseFromString', 'ByteSize', 'IsInitialized',
              'ListFields', 'DESCRIPTOR', 'add', 'append', 'extend', 'remove', 'sort', 'pop', 'insert', 'MergeFromString', 'SetInParent', 'FromString', 'reverse'}
WRAPPERS = {'sorted', 'list', 'tuple', 'reversed', 'iter', 'filter', 'enumerate'}


def check_function(schema, fi, typed_params):
  """typed_params: {name: message qualname}.  Yields (node, ok, why)."""
  env = dict(typed_params)
  fn = fi.node

  def type_of(node):
    """message qualname, ('rep', qualname) or None"""
    if isinstance(node, ast.Name):
      return env.get(node.id)
    if isinstance(node, ast.Attribute):
      bt = type_of(node.value)
      if isinstance(bt, str):
        m = schema.msg(bt)
        f = m.fields.get(node.attr) if m else None
        if f is None:
          return None
        if f.kind == 'message':
          return ('rep', f.type) if f.repeated else f.type
        return None
      return None
    if isinstance(node, ast.Subscript):
      bt = type_of(node.value)
      if isinstance(bt, tuple) and bt[0] == 'rep':
        return bt if isinstance(node.slice, ast.Slice) else bt[1]
      return None
    if isinstance(node, ast.Call):
      d = dotted(node.func)
      if d in WRAPPERS and node.args:
        return type_of(node.args[0])
      if d == 'copy.deepcopy' and node.args:
        return type_of(node.args[0])
      return None
    if isinstance(node, (ast.ListComp, ast.GeneratorExp)) and len(node.generators) == 1:
      g = node.generators[0]
      it = type_of(g.iter)
      if isinstance(it, tuple) and isinstance(g.target, ast.Name) and isinstance(node.elt, ast.Name) and node.elt.id == g.target.id:
        return it
    return None

  # two passes so that later-bound names type earlier-used comprehension variables consistently
  for _ in range(2):
    for n in ast.walk(fn):
      if isinstance(n, ast.Assign) and len(n.targets) == 1 and isinstance(n.targets[0], ast.Name):
        t = type_of(n.value)
        if t is not None:
          env[n.targets[0].id] = t
      elif isinstance(n, (ast.For, ast.comprehension)) and isinstance(n.target, ast.Name):
        t = type_of(n.iter)
        if isinstance(t, tuple) and t[0] == 'rep':
          if not (isinstance(n.iter, ast.Call) and dotted(n.iter.func) == 'enumerate'):
            env[n.target.id] = t[1]
      elif isinstance(n, ast.Lambda) and len(n.args.args) == 1:
        pass
  for n in ast.walk(fn):
    if isinstance(n, ast.Attribute):
      bt = type_of(n.value)
      if isinstance(bt, str):
        m = schema.msg(bt)
        if m is None:
          continue
        if n.attr in m.fields or n.attr in PB_METHODS:
          yield (n, True, '%s is a field of %s' % (n.attr, bt))
        elif any(n.attr in vals for vals in m.enums.values()) or n.attr in m.nested or n.attr in m.enums:
          yield (n, True, '%s is an enum value / nested type of %s' % (n.attr, bt))
        else:
          yield (n, False, '%s has no field `%s` (AttributeError when this expression is evaluated)' % (bt, n.attr))
      elif isinstance(bt, tuple) and bt[0] == 'rep':
        if n.attr in PB_METHODS:
          yield (n, True, 'repeated-container method %s' % n.attr)
        else:
          yield (n, False, 'a repeated field of %s has no attribute `%s`' % (bt[1], n.attr))
