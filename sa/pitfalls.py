"""Location-independent detectors for value pitfalls of the language itself: constructs whose meaning changes at one
boundary value that the surrounding guards leave reachable.  Each detector reads one function (its AST and the guards that
hold where the construct sits), gives a three-valued verdict per site and never depends on how the statements around the
site are arranged:

  neg-zero-slice     x[-e:] / del x[-e:] / x[:-e] with e == 0 reachable: -0 is 0, so "the last e" is "everything" (and "all
                     but the last e" is "nothing")
  previous-wraps     x[i - 1] where i counts from 0 and i == 0 is reachable: index -1 is the *last* element
  falsy-zero         `v or w` / `if v` where v is "a number or None" and 0 is a legitimate number: the test conflates both
  narrowing-cast     astype(uint8 / int8 / uint16 / int16) (or dtype= / np.uint8(..)) of a value that is not provably small
  sign-only          a parameter whose magnitude the function's result must carry is only ever *compared*
  stale-sibling      two names unpacked together from the first element of the sequence a loop walks, both read in the loop as
                     "the values of the previous element", one re-assigned there and the other never

Expected count on today's tree: zero for every kind, so every run first applies the detectors to the positive and negative
examples of SELF_EXAMPLES below (parsed, never executed) and fails closed if one is not classified as recorded."""
import ast

from sa import astutil as U, nf, scenario
from sa.loader import norm_text, dotted

OK, BAD, UNKNOWN = 'ok', 'bad', 'unknown'


class Site:
  def __init__(self, kind, node, verdict, why):
    self.kind, self.node, self.verdict, self.why = kind, node, verdict, why


# --------------------------------------------------------------------------------------------------------- guards
def guards_at(fn, node):
  """[(test, polarity)] known to hold when the expression `node` is evaluated: statement-level path conditions plus the
  short-circuit operands, conditional-expression tests and comprehension filters between the statement and the node."""
  pm = U.parents(fn)
  out = []
  child, cur = node, pm.get(id(node))
  stmt = None
  while cur is not None:
    if isinstance(cur, ast.BoolOp):
      k = next((i for i, v in enumerate(cur.values) if v is child), None)
      if k:
        for v in cur.values[:k]:
          out.append((v, isinstance(cur.op, ast.And)))
    elif isinstance(cur, ast.IfExp):
      if child is cur.body:
        out.append((cur.test, True))
      elif child is cur.orelse:
        out.append((cur.test, False))
    elif isinstance(cur, ast.comprehension):
      # a filter is evaluated under the filters before it
      k = next((i for i, f in enumerate(cur.ifs) if f is child), None)
      if k:
        out.extend((x, True) for x in cur.ifs[:k])
    elif isinstance(cur, (ast.ListComp, ast.SetComp, ast.GeneratorExp, ast.DictComp)):
      # the element under every filter; a later generator under the filters of the earlier ones
      k = next((i for i, g in enumerate(cur.generators) if g is child), None)
      for g in (cur.generators if k is None else cur.generators[:k]):
        out.extend((x, True) for x in g.ifs)
    if isinstance(cur, ast.stmt):
      stmt = cur
      if isinstance(cur, (ast.If, ast.While)) and child is cur.test:
        pass
      break
    child, cur = cur, pm.get(id(cur))
  if stmt is not None:
    out.extend(U.path_conditions(fn, stmt))
  flat = []

  def add(t, pol):
    if isinstance(t, ast.UnaryOp) and isinstance(t.op, ast.Not):
      add(t.operand, not pol)
    elif isinstance(t, ast.BoolOp) and isinstance(t.op, ast.And) and pol:
      for v in t.values:
        add(v, True)
    elif isinstance(t, ast.BoolOp) and isinstance(t.op, ast.Or) and not pol:
      for v in t.values:
        add(v, False)
    else:
      flat.append((t, pol))
  for t, pol in out:
    add(t, pol)
  return flat


def _mentions(t, text):
  return any(norm_text(n) == text for n in ast.walk(t))


def value_reachable(fn, node, expr, value):
  """Is `expr == value` consistent with the guards at `node`?  (True, guards) / (False, guard) / (None, reason)."""
  text = norm_text(expr)
  gs = guards_at(fn, node)
  rel = [(t, p) for t, p in gs if _mentions(t, text)]
  sub = {text: nf.rat(U.E(repr(value)))}
  admitted = []
  for t, p in rel:
    if norm_text(t) == text:          # `if e:` / `e and ...`
      v = bool(value)
    else:
      try:
        v = scenario.tv(t, sub)
      except Exception:      # pylint: disable=broad-except
        v = None
    if v is None:
      return (None, 'guard %s cannot be evaluated at %s == %r' % (norm_text(t), text, value))
    if v != p:
      return (False, '%s%s excludes %s == %r' % ('' if p else 'not ', norm_text(t), text, value))
    admitted.append('%s%s' % ('' if p else 'not ', norm_text(t)))
  return (True, admitted)


# --------------------------------------------------------------------------------------------------------- detectors
def neg_zero_slices(fn):
  out = []
  for n in ast.walk(fn):
    if not (isinstance(n, ast.Subscript) and isinstance(n.slice, ast.Slice)):
      continue
    for side, b in (('lower', n.slice.lower), ('upper', n.slice.upper)):
      if not (isinstance(b, ast.UnaryOp) and isinstance(b.op, ast.USub)) or isinstance(b.operand, ast.Constant):
        continue
      other = n.slice.upper if side == 'lower' else n.slice.lower
      if other is not None:
        continue
      e = b.operand
      ex = U.expand_locals(fn, e, at=n)
      try:
        c = nf.rat(ex).const_value()
      except nf.NFError:
        c = None
      if c is not None:
        out.append(Site('neg-zero-slice', n, OK if c != 0 else BAD, '%s is the constant %s' % (norm_text(e), c)))
        continue
      r, info = value_reachable(fn, n, e, 0)
      what = ('%s with %s == 0 is %s[0:]: everything, not nothing' if side == 'lower' else '%s with %s == 0 is %s[:0]: nothing, not everything') % (
          norm_text(n), norm_text(e), norm_text(n.value))
      if r is False:
        out.append(Site('neg-zero-slice', n, OK, info))
      elif r is True and info:
        out.append(Site('neg-zero-slice', n, BAD, '%s; the guards in force (%s) admit %s == 0' % (what, '; '.join(info), norm_text(e))))
      else:
        w = zero_witness(fn, n, ex)
        if w:
          out.append(Site('neg-zero-slice', n, BAD, '%s; no guard excludes it, and it happens for ordinary arguments: %s gives %s == 0' % (what, w, norm_text(e))))
        else:
          out.append(Site('neg-zero-slice', n, UNKNOWN, 'cannot classify: %s; %s' % (what, info if r is None else 'no guard bounds %s away from 0' % norm_text(e))))
  return out


def zero_witness(fn, node, ex, grid=(1, 2, 3, 4)):
  """Small positive integer values of the function's parameters (and of len(<parameter>)) for which the expanded expression `ex`
  folds to 0 while every guard at `node` holds - or None.  Only arithmetic on exactly representable values is folded (a
  quotient that binary floating point would round makes the candidate unusable), so a witness is an input of the real function."""
  import itertools
  params = set(a.arg for a in fn.args.args + fn.args.kwonlyargs) - {'self', 'cls'} if isinstance(fn, (ast.FunctionDef, ast.AsyncFunctionDef)) else set()
  atoms = []
  skip = set()
  for x in ast.walk(ex):
    if isinstance(x, ast.Call) and isinstance(x.func, ast.Name) and x.func.id == 'len' and len(x.args) == 1 and isinstance(x.args[0], ast.Name) and x.args[0].id in params:
      atoms.append(norm_text(x))
      skip.add(id(x.args[0]))
  for x in ast.walk(ex):
    if isinstance(x, ast.Name) and isinstance(x.ctx, ast.Load) and id(x) not in skip:
      if x.id in params:
        atoms.append(x.id)
      elif x.id not in ('int', 'float', 'abs', 'min', 'max', 'len', 'math', 'np', 'numpy', 'bool'):
        return None
  atoms = sorted(set(atoms))
  if not atoms or len(atoms) > 4:
    return None
  guards = [(U.expand_locals(fn, t, at=node), p) for t, p in guards_at(fn, node)]
  for combo in itertools.product(grid, repeat=len(atoms)):
    sub = dict((a, nf.rat(U.E(repr(v)))) for a, v in zip(atoms, combo))
    if scenario.fold_numeric(ex, sub, dyadic=True) != 0 or scenario.fold_numeric(ex, sub, dyadic=True) is None:
      continue
    ok = True
    for t, p in guards:
      v = scenario.fold_numeric(t, sub, dyadic=True)
      if v is None or bool(v) != p:
        ok = False
        break
    if ok:
      return ', '.join('%s = %d' % (a, v) for a, v in zip(atoms, combo))
  return None


def _counts_from_zero(fn, name_node_owner, name):
  """The loop / comprehension that binds `name` to a counter starting at 0, or None."""
  for n in ast.walk(fn):
    gens = []
    if isinstance(n, ast.For):
      gens = [(n.target, n.iter)]
    elif isinstance(n, (ast.ListComp, ast.SetComp, ast.GeneratorExp, ast.DictComp)):
      gens = [(g.target, g.iter) for g in n.generators]
    for tgt, it in gens:
      if not any(x is name_node_owner for x in ast.walk(n)):
        continue
      if isinstance(it, ast.Call) and dotted(it.func) == 'range':
        if isinstance(tgt, ast.Name) and tgt.id == name and (len(it.args) == 1 or (len(it.args) >= 2 and U.const_value(it.args[0]) == 0)):
          if len(it.args) == 3 and U.const_value(it.args[2]) not in (1, None):
            continue
          return n
      if isinstance(it, ast.Call) and dotted(it.func) == 'enumerate' and isinstance(tgt, ast.Tuple) and tgt.elts and \
          isinstance(tgt.elts[0], ast.Name) and tgt.elts[0].id == name:
        start = it.args[1] if len(it.args) > 1 else next((k.value for k in it.keywords if k.arg == 'start'), None)
        if start is None or U.const_value(start) == 0:
          return n
  return None


def previous_wraps(fn):
  out = []
  for n in ast.walk(fn):
    if not (isinstance(n, ast.Subscript) and isinstance(n.slice, ast.BinOp) and isinstance(n.slice.op, ast.Sub) and
            isinstance(n.slice.left, ast.Name) and U.const_value(n.slice.right) == 1):
      continue
    i = n.slice.left
    binder = _counts_from_zero(fn, n, i.id)
    if binder is None:
      # a count of the elements that pass a test (sum(1 for .. if ..), len([.. if ..]), .count(x)): zero when nothing passes
      d = U.reaching_def(fn, i.id, n)
      counted = None
      if isinstance(d, ast.Call) and dotted(d.func) == 'sum' and len(d.args) == 1 and isinstance(d.args[0], (ast.GeneratorExp, ast.ListComp)) and \
          U.const_value(d.args[0].elt) == 1 and any(g.ifs for g in d.args[0].generators):
        counted = 'the number of elements that pass `%s`' % norm_text(d.args[0].generators[-1].ifs[0])[:50]
      elif isinstance(d, ast.Call) and dotted(d.func) == 'len' and len(d.args) == 1 and isinstance(d.args[0], (ast.ListComp, ast.GeneratorExp)) and any(g.ifs for g in d.args[0].generators):
        counted = 'the number of elements that pass `%s`' % norm_text(d.args[0].generators[-1].ifs[0])[:50]
      elif isinstance(d, ast.Call) and isinstance(d.func, ast.Attribute) and d.func.attr == 'count' and len(d.args) == 1:
        counted = 'the number of occurrences of %s' % norm_text(d.args[0])[:40]
      if counted is None:
        continue
      r, info = value_reachable(fn, n, i, 0)
      what = '%s with %s == 0 is %s[-1], the last element, not "none yet"' % (norm_text(n), i.id, norm_text(n.value))
      if r is False:
        out.append(Site('previous-wraps', n, OK, info))
      elif r is True:
        out.append(Site('previous-wraps', n, BAD, '%s; %s is %s, which is 0 when nothing passes, and %s' % (
            what, i.id, counted, ('the guards in force (%s) admit 0' % '; '.join(info)) if info else 'no guard excludes 0')))
      else:
        out.append(Site('previous-wraps', n, UNKNOWN, 'cannot classify: %s; %s' % (what, info)))
      continue
    r, info = value_reachable(fn, n, i, 0)
    what = '%s at %s == 0 is %s[-1], the last element, not "nothing before the first"' % (norm_text(n), i.id, norm_text(n.value))
    if r is False:
      out.append(Site('previous-wraps', n, OK, info))
    elif r is True:
      out.append(Site('previous-wraps', n, BAD, '%s; %s counts from 0 and %s' % (
          what, i.id, ('the guards in force (%s) admit 0' % '; '.join(info)) if info else 'no guard excludes 0')))
    else:
      out.append(Site('previous-wraps', n, UNKNOWN, 'cannot classify: %s; %s' % (what, info)))
  return out


def searched_position_minus_one(fn):
  """`k = bisect.bisect_right(xs, v) - 1` (or bisect / bisect_left) is the position of the last element not after v - and -1 when v lies
  before xs[0].  Used as an index, -1 is the *last* element.  OK when a condition on k (k < 0, k >= 0, k == -1) or on v against xs[0]
  is in force where k is used as an index; BAD when k is used as a subscript with no such condition anywhere on the way."""
  out = []
  for st in U.walk_stmts(fn):
    if not (isinstance(st, ast.Assign) and len(st.targets) == 1 and isinstance(st.targets[0], ast.Name) and isinstance(st.value, ast.BinOp) and isinstance(st.value.op, ast.Sub) and
            U.const_value(st.value.right) == 1 and isinstance(st.value.left, ast.Call) and (dotted(st.value.left.func) or '').split('.')[-1] in ('bisect', 'bisect_right', 'bisect_left') and
            len(st.value.left.args) >= 2):
      continue
    k = st.targets[0].id
    xs, v = norm_text(st.value.left.args[0]), norm_text(st.value.left.args[1])
    uses = [n for n in ast.walk(fn) if isinstance(n, ast.Subscript) and isinstance(n.slice, ast.Name) and n.slice.id == k and getattr(n, 'lineno', 0) >= st.lineno and
            U.reaching_def(fn, k, n) is st.value]
    for n in uses:
      gs = guards_at(fn, n)
      lower = [t for t, _p in gs if (any(isinstance(x, ast.Name) and x.id == k for x in ast.walk(t)) and any(U.const_value(c) in (0, -1) for c in ast.walk(t) if isinstance(c, (ast.Constant, ast.UnaryOp)))) or
               (_mentions(t, v) and ('%s[0]' % xs) in norm_text(t))]
      what = '%s with %s == -1 (when %s lies before %s[0]) is the last element of %s' % (norm_text(n), k, v, xs, norm_text(n.value))
      vx = U.expand_locals(fn, st.value.left.args[1], at=st)
      related = any(norm_text(x) == xs for x in ast.walk(vx))
      if lower:
        out.append(Site('previous-wraps', n, OK, 'guarded by %s' % norm_text(lower[0])))
      elif related:
        # the searched value is computed from the searched list itself (an element of it plus an offset): it may never precede xs[0]
        out.append(Site('previous-wraps', n, UNKNOWN, 'cannot classify: %s; the searched value %s is derived from %s itself' % (what, norm_text(vx)[:50], xs)))
      else:
        out.append(Site('previous-wraps', n, BAD, '%s; %s = %s, and no condition on the way excludes a value before the first element' % (what, k, norm_text(st.value))))
  return out


def _return_kinds(mod, fnode, seen=None, depth=0):
  """Kinds of value a module-level function can return: subset of {'none', 'mod', 'num', 'other'}.
  'mod': an expression `x % N` (0 is in its range by construction)."""
  seen = seen if seen is not None else set()
  if fnode.name in seen or depth > 4:
    return {'other'}
  seen = seen | {fnode.name}
  kinds = set()
  rets = [r for r in U.walk_stmts(fnode, into_nested=False) if isinstance(r, ast.Return)]
  if not rets:
    return {'none'}
  for r in rets:
    kinds |= _value_kinds(mod, fnode, r.value, r, seen, depth)
  return kinds


def _value_kinds(mod, fnode, v, at, seen, depth):
  if v is None or (isinstance(v, ast.Constant) and v.value is None):
    return {'none'}
  v = U.expand_locals(fnode, v, at=at)
  if isinstance(v, ast.IfExp):
    return _value_kinds(mod, fnode, v.body, at, seen, depth) | _value_kinds(mod, fnode, v.orelse, at, seen, depth)
  if isinstance(v, ast.BinOp) and isinstance(v.op, ast.Mod) and not isinstance(v.left, ast.Constant):
    return {'mod'}
  if isinstance(v, ast.BinOp) and isinstance(v.op, (ast.Add, ast.Sub, ast.Mult, ast.FloorDiv)):
    return {'num'}
  if isinstance(v, ast.Constant) and isinstance(v.value, (int, float)) and not isinstance(v.value, bool):
    return {'num'}
  if isinstance(v, ast.Call):
    g = mod.functions.get(dotted(v.func) or '') if mod is not None else None
    if g is not None:
      return _return_kinds(mod, g.node, seen, depth + 1)
    if dotted(v.func) in ('len', 'int', 'round', 'abs'):
      return {'num'}
  return {'other'}


def falsy_zero(fn, mod):
  """`v or w`, `if v`, `not v`, `w if v else u` on a value that is None-or-a-number whose range includes 0."""
  out = []

  def kinds_of(e, at):
    return _value_kinds(mod, fn, e, at, set(), 0)

  def judge(e, at, how):
    ks = kinds_of(e, at)
    if 'mod' in ks and 'none' in ks and 'other' not in ks:
      out.append(Site('falsy-zero', at, BAD, '%s tests the truth of %s, which is None when absent and otherwise a number reduced with %% (0 is one of its '
                      'values): a present 0 is treated as absent' % (how, norm_text(e))))
    elif ks <= {'num', 'mod', 'none'} and 'none' in ks and ks != {'none'}:
      out.append(Site('falsy-zero', at, UNKNOWN, 'cannot classify: %s tests the truth of %s, which is None or a number; whether 0 is among the numbers is not known' % (how, norm_text(e))))
  for n in ast.walk(fn):
    if isinstance(n, ast.BoolOp):
      for v in n.values[:-1]:
        judge(v, n, '`%s`' % norm_text(n))
    elif isinstance(n, (ast.If, ast.While, ast.IfExp)):
      t = n.test
      if isinstance(t, ast.UnaryOp) and isinstance(t.op, ast.Not):
        t = t.operand
      if isinstance(t, (ast.Name, ast.Call)):
        judge(t, t, '`if %s`' % norm_text(n.test))
  return out


# identifier-like integer fields and event codes whose value 0 is an ordinary value (instrument 0, pitch 0, program 0, step 0 ...)
ZERO_IS_ORDINARY_FIELDS = ('instrument', 'pitch', 'program', 'voice', 'part', 'control_number', 'quantized_start_step', 'quantized_end_step', 'quantized_step')
EVENT_CODE_NAMES = ('MELODY_NOTE_OFF', 'MELODY_NO_EVENT', 'NOTE_OFF', 'NO_EVENT')


def falsy_domain_zero(fn, mod=None):
  """A name that is "absent (None) or a value of a domain in which 0 is ordinary" and whose truth is tested.
  Absent-or-value: a parameter whose default is None, or a local bound to next(..., None) / an `x if c else None` /  `.get(k)`.
  Domain with an ordinary 0: the same name is compared (== / !=) with one of the fields in ZERO_IS_ORDINARY_FIELDS, or with a
  melody event code (events are pitches 0..127 or negative codes).  `not name`, `if name`, `name and ...`, `name or ...` then
  treats instrument 0 / pitch 0 like "not given"."""
  out = []
  a = fn.args
  pos = a.posonlyargs + a.args
  optional = set(p.arg for p, d in zip(pos[len(pos) - len(a.defaults):], a.defaults) if isinstance(d, ast.Constant) and d.value is None)
  optional |= set(p.arg for p, d in zip(a.kwonlyargs, a.kw_defaults) if isinstance(d, ast.Constant) and d.value is None)
  for st in U.walk_stmts(fn, into_nested=False):
    if isinstance(st, ast.Assign) and len(st.targets) == 1 and isinstance(st.targets[0], ast.Name):
      v = st.value
      if (isinstance(v, ast.Call) and dotted(v.func) == 'next' and len(v.args) == 2 and isinstance(v.args[1], ast.Constant) and v.args[1].value is None) or \
         (isinstance(v, ast.IfExp) and any(isinstance(x, ast.Constant) and x.value is None for x in (v.body, v.orelse))):
        optional.add(st.targets[0].id)
  params = set(p.arg for p in pos + a.kwonlyargs)
  ordinary = {}
  for c in ast.walk(fn):
    if isinstance(c, ast.Compare) and len(c.ops) == 1 and isinstance(c.ops[0], (ast.Eq, ast.NotEq)):
      for x, y in ((c.left, c.comparators[0]), (c.comparators[0], c.left)):
        # a parameter that is matched against such a field is a value of that domain whether or not it may also be None
        if isinstance(x, ast.Name) and (x.id in optional or x.id in params):
          if isinstance(y, ast.Attribute) and y.attr in ZERO_IS_ORDINARY_FIELDS:
            ordinary[x.id] = 'it is compared with .%s, and %s 0 is an ordinary %s' % (y.attr, y.attr, y.attr)
          elif x.id in optional and (dotted(y) or '').split('.')[-1] in EVENT_CODE_NAMES:
            ordinary[x.id] = 'it is compared with %s, so it is a melody event, and pitch 0 is an ordinary event' % norm_text(y)
  # `x or NO_EVENT`: the fallback is a melody event code, so x is a melody event (or None)
  for b in ast.walk(fn):
    if isinstance(b, ast.BoolOp) and isinstance(b.op, ast.Or) and len(b.values) == 2 and isinstance(b.values[0], ast.Name) and b.values[0].id in optional and \
        (dotted(b.values[1]) or '').split('.')[-1] in EVENT_CODE_NAMES:
      ordinary.setdefault(b.values[0].id, 'its fallback is %s, so it is a melody event, and pitch 0 is an ordinary event' % norm_text(b.values[1]))
  # the same without a name: `(events[-d] if ... else None) or NO_EVENT`
  for b in ast.walk(fn):
    if isinstance(b, ast.BoolOp) and isinstance(b.op, ast.Or) and len(b.values) == 2 and isinstance(b.values[0], ast.IfExp) and \
        any(isinstance(x, ast.Constant) and x.value is None for x in (b.values[0].body, b.values[0].orelse)) and (dotted(b.values[1]) or '').split('.')[-1] in EVENT_CODE_NAMES:
      out.append(Site('falsy-domain-zero', b, BAD, '%s tests the truth of an optional melody event (None stands for "no such event", the fallback is %s): pitch 0 is an ordinary event and is '
                      'replaced by the fallback too' % (norm_text(b)[:70], norm_text(b.values[1]))))
  pm = U.parents(fn)
  for n in ast.walk(fn):
    if not (isinstance(n, ast.Name) and isinstance(n.ctx, ast.Load) and n.id in ordinary):
      continue
    par = pm.get(id(n))
    tested = (isinstance(par, ast.UnaryOp) and isinstance(par.op, ast.Not)) or (isinstance(par, ast.BoolOp) and any(v is n for v in par.values)) or \
        (isinstance(par, (ast.If, ast.While, ast.IfExp)) and par.test is n)
    if isinstance(par, ast.BoolOp) and par.values[-1] is n and not isinstance(pm.get(id(par)), (ast.If, ast.While, ast.IfExp, ast.UnaryOp, ast.BoolOp, ast.comprehension)):
      tested = False      # `x or y` / `c and x` as a value: the last operand is returned, not tested
    if isinstance(par, ast.BoolOp) and isinstance(par.op, ast.Or) and par.values[0] is n and len(par.values) == 2:
      tested = True       # `x or fallback`: x is tested whatever is done with the result
    if isinstance(par, ast.comprehension) and any(f is n for f in par.ifs):
      tested = True
    # `x or 0` maps None to 0 and 0 to 0: the value 0 is not lost
    if isinstance(par, ast.BoolOp) and isinstance(par.op, ast.Or) and len(par.values) == 2 and par.values[0] is n and U.const_value(par.values[1]) == 0:
      tested = False
    if tested:
      out.append(Site('falsy-domain-zero', par if isinstance(par, ast.expr) else n, BAD,
                      '%s tests the truth of %s (None / empty stands for "not given"); %s: the value 0 is treated as "not given"' % (norm_text(par)[:70] if isinstance(par, ast.expr) else 'if ' + n.id, n.id, ordinary[n.id])))
  return out


NARROW = ('uint8', 'int8', 'uint16', 'int16')


def _small_by_construction(fn, e, at):
  """A value known to fit eight bits: a comparison result, a constant below 128, something % N with N <= 128."""
  e = U.expand_locals(fn, e, at=at)
  if isinstance(e, ast.Compare):
    return True
  c = U.const_value(e)
  if isinstance(c, (int, float)) and 0 <= c < 128:
    return True
  if isinstance(e, ast.BinOp) and isinstance(e.op, ast.Mod):
    m = U.const_value(e.right)
    return isinstance(m, int) and 0 < m <= 128
  return False


def narrowing_casts(fn):
  out = []
  for n in ast.walk(fn):
    if not isinstance(n, ast.Call):
      continue
    ty, val = None, None
    d = dotted(n.func) or ''
    if isinstance(n.func, ast.Attribute) and n.func.attr == 'astype' and n.args:
      ty, val = (dotted(n.args[0]) or '').split('.')[-1], n.func.value
    elif d.split('.')[-1] in NARROW and n.args:
      ty, val = d.split('.')[-1], n.args[0]
    else:
      k = next((k for k in n.keywords if k.arg == 'dtype'), None)
      if k is not None and n.args:
        ty, val = (dotted(k.value) or '').split('.')[-1], n.args[0]
    if ty not in NARROW:
      continue
    inner = val
    while isinstance(inner, ast.Call) and (dotted(inner.func) or '').split('.')[-1] in ('array', 'asarray') and inner.args:
      inner = inner.args[0]
    elts = inner.elts if isinstance(inner, (ast.List, ast.Tuple)) else [inner]
    if all(_small_by_construction(fn, e, n) for e in elts):
      out.append(Site('narrowing-cast', n, OK, 'the value fits %s by construction' % ty))
      continue
    params = set(a.arg for a in fn.args.args)
    from_param = any(isinstance(x, ast.Name) and x.id in params for e in elts for x in ast.walk(U.expand_locals(fn, e, at=n)))
    bits = 8 if ty.endswith('8') else 16
    if from_param:
      out.append(Site('narrowing-cast', n, BAD, '%s keeps only the low %d bits of %s, which comes from an argument with no bound in force: larger values are silently changed' % (
          norm_text(n), bits, ', '.join(norm_text(e) for e in elts))))
    else:
      out.append(Site('narrowing-cast', n, UNKNOWN, 'cannot classify: %s narrows to %d bits a value whose range is not known' % (norm_text(n), bits)))
  return out


def sign_only(fn, param):
  """BAD when `param` occurs in the function only as an operand of comparisons (its sign / order is read, its magnitude never)."""
  pm = U.parents(fn)
  uses = [n for n in ast.walk(fn) if isinstance(n, ast.Name) and n.id == param and isinstance(n.ctx, ast.Load)]
  if not uses:
    return [Site('sign-only', fn, UNKNOWN, 'cannot classify: %s is never read' % param)]
  outside = []
  for u in uses:
    cur, child, in_cmp = pm.get(id(u)), u, False
    while cur is not None and not isinstance(cur, ast.stmt):
      if isinstance(cur, ast.Compare):
        in_cmp = True
        break
      if isinstance(cur, ast.Call) and (dotted(cur.func) or '') not in ('abs',):
        break
      child, cur = cur, pm.get(id(cur))
    if not in_cmp:
      outside.append(u)
  if outside:
    return [Site('sign-only', outside[0], OK, 'the value of %s enters the result' % param)]
  return [Site('sign-only', uses[0], BAD, '%s is only compared (%s): the result depends on its sign, never on its magnitude' % (
      param, ', '.join(sorted(set(norm_text(pm[id(u)]) for u in uses if isinstance(pm.get(id(u)), ast.Compare))))))]


def stale_siblings(fn):
  out = []
  for lp in ast.walk(fn):
    if not isinstance(lp, ast.For):
      continue
    it = norm_text(lp.iter)
    blk = next((b for b in U.blocks(fn) if any(s is lp for s in b)), None)
    if blk is None:
      continue
    for st in blk:
      if st is lp:
        break
      if not (isinstance(st, ast.Assign) and len(st.targets) == 1 and isinstance(st.targets[0], ast.Tuple) and
              isinstance(st.value, ast.Subscript) and U.const_value(st.value.slice) == 0 and norm_text(st.value.value) == it):
        continue
      names = [e.id for e in st.targets[0].elts if isinstance(e, ast.Name)]
      if len(names) < 2:
        continue
      stored = set()
      for s in U.walk_stmts(lp):
        for tgt, _v, _op in U.store_targets(s):
          for x in ast.walk(tgt):
            if isinstance(x, ast.Name) and isinstance(tgt, (ast.Name, ast.Tuple, ast.List)):
              stored.add(x.id)
      read = set(x.id for s in lp.body for x in ast.walk(s) if isinstance(x, ast.Name) and isinstance(x.ctx, ast.Load))
      upd = [nm for nm in names if nm in stored and nm in read]
      stale = [nm for nm in names if nm not in stored and nm in read]
      if upd and stale:
        out.append(Site('stale-sibling', st, BAD, '%s takes %s from the first element of %s; inside the loop over %s, %s is advanced to the current element but %s '
                        'keeps the first element\'s value for every iteration' % (norm_text(st), ', '.join(names), it, it, ', '.join(upd), ', '.join(stale))))
      elif upd or stale:
        out.append(Site('stale-sibling', st, OK, 'consistent'))
  return out


def mod_reduced(fi, modulus=12, names=('NOTES_PER_OCTAVE',)):
  """Is every value `fi` returns reduced with `% modulus` (directly or by the module-level function that produces it)?
  (OK | BAD | UNKNOWN, why).  BAD only when the function and everything it calls in its module contain no reduction at all and
  the returned value is built by arithmetic: nothing can have brought it back into range(modulus)."""
  mod = fi.module

  def is_modulus(n):
    return U.const_value(n) == modulus or (dotted(n) or '').split('.')[-1] in names

  def reduced(fnode, v, at, depth, seen):
    v = U.expand_locals(fnode, v, at=at)
    if isinstance(v, ast.BinOp) and isinstance(v.op, ast.Mod) and is_modulus(v.right):
      return True
    if isinstance(v, ast.Call):
      g = mod.functions.get(dotted(v.func) or '')
      if g is not None and g.node.name not in seen and depth < 4:
        rets = [r for r in U.walk_stmts(g.node, into_nested=False) if isinstance(r, ast.Return)]
        return bool(rets) and all(reduced(g.node, r.value, r, depth + 1, seen | {g.node.name}) for r in rets)
    return False
  rets = [r for r in U.walk_stmts(fi.node, into_nested=False) if isinstance(r, ast.Return) and r.value is not None]
  if rets and all(reduced(fi.node, r.value, r, 0, {fi.node.name}) for r in rets):
    return (OK, 'every returned value is reduced modulo %d' % modulus)
  # the reduction written as loops: while x < 0: x += N / while x >= N: x -= N; judged at the four boundary values
  for r in rets:
    v = r.value
    holder = fi
    if isinstance(v, ast.Call) and len(rets) == 1:
      g = mod.functions.get(dotted(v.func) or '')
      grets = [x for x in U.walk_stmts(g.node, into_nested=False) if isinstance(x, ast.Return)] if g is not None else []
      if len(grets) == 1 and isinstance(grets[0].value, ast.Name):
        holder, v = g, grets[0].value
    if not isinstance(v, ast.Name):
      continue
    loops = []
    for st in U.walk_stmts(holder.node, into_nested=False):
      if isinstance(st, ast.While) and len(st.body) == 1 and isinstance(st.body[0], ast.AugAssign) and norm_text(st.body[0].target) == v.id and \
          is_modulus(st.body[0].value) and isinstance(st.body[0].op, (ast.Add, ast.Sub)):
        loops.append((st, isinstance(st.body[0].op, ast.Sub)))
    if len(loops) == 2 and sorted(d for _l, d in loops) == [False, True]:
      bad = []
      for lp, down in loops:
        for val, want in (((modulus, True), (modulus - 1, False)) if down else ((-1, True), (0, False))):
          got = scenario.tv(lp.test, {v.id: nf.rat(U.E(repr(val)))})
          if got is None:
            return (UNKNOWN, 'cannot classify: loop test %s cannot be evaluated at %s == %d' % (norm_text(lp.test), v.id, val))
          if got != want:
            bad.append('`while %s` %s at %s == %d' % (norm_text(lp.test), 'stops' if want else 'continues', v.id, val))
      if bad:
        return (BAD, '%s reduces %s with loops, but %s: the value %d is returned although it is outside 0..%d' % (holder.qualname, v.id, '; '.join(bad), modulus, modulus - 1)
                if any('stops' in b for b in bad) else '%s reduces %s with loops, but %s' % (holder.qualname, v.id, '; '.join(bad)))
      return (OK, '%s is brought into 0..%d by a pair of loops whose tests are exact at -1, 0, %d and %d' % (v.id, modulus - 1, modulus - 1, modulus))
  # a wrap written for one side only: `x + N if x < 0 else x` brings a negative value back, a value of N or more stays as it is
  for r in rets:
    v, holder = r.value, fi
    if isinstance(v, ast.Call) and len(rets) == 1:
      g = mod.functions.get(dotted(v.func) or '')
      grets = [x for x in U.walk_stmts(g.node, into_nested=False) if isinstance(x, ast.Return)] if g is not None else []
      if len(grets) == 1:
        holder, v = g, grets[0].value
    if isinstance(v, ast.IfExp):
      for shifted, plain in ((v.body, v.orelse), (v.orelse, v.body)):
        if isinstance(shifted, ast.BinOp) and isinstance(shifted.op, (ast.Add, ast.Sub)) and is_modulus(shifted.right) and norm_text(shifted.left) == norm_text(plain):
          inner = U.expand_locals(holder.node, plain, at=grets[0] if holder is not fi else r)
          has_mod = any(isinstance(n, ast.BinOp) and isinstance(n.op, ast.Mod) for n in ast.walk(inner))
          if isinstance(inner, ast.BinOp) and isinstance(inner.op, (ast.Add, ast.Sub)) and not has_mod:
            side = 'below 0' if isinstance(shifted.op, ast.Add) else 'at or above %d' % modulus
            other = '%d or more (B# -> 12)' % modulus if isinstance(shifted.op, ast.Add) else 'below 0 (Cb -> -1)'
            return (BAD, '%s wraps %s only %s (`%s`): a value of %s is returned as it is, outside 0..%d' % (holder.qualname, norm_text(plain), side, norm_text(v)[:60], other, modulus - 1))
  nodes = U.reachable_nodes(fi, depth=3)
  any_mod = any((isinstance(n, ast.BinOp) and isinstance(n.op, ast.Mod) and is_modulus(n.right)) or
                (isinstance(n, ast.AugAssign) and isinstance(n.op, ast.Mod) and is_modulus(n.value)) or
                (isinstance(n, ast.Call) and dotted(n.func) == 'divmod') for n in nodes)
  arith = False
  for r in rets:
    if isinstance(r.value, ast.BinOp) and isinstance(r.value.op, (ast.Add, ast.Sub)):
      arith = True
    if isinstance(r.value, ast.Name):
      for st in U.walk_stmts(fi.node, into_nested=False):
        if isinstance(st, ast.AugAssign) and isinstance(st.target, ast.Name) and st.target.id == r.value.id and isinstance(st.op, (ast.Add, ast.Sub)):
          arith = True
  if not any_mod and arith:
    return (BAD, '%s returns a sum / difference and neither it nor anything it calls reduces modulo %d: the result leaves 0..%d as soon as the '
            'accidentals cross the octave boundary (Cb -> -1, B# -> 12)' % (fi.qualname, modulus, modulus - 1))
  return (UNKNOWN, 'cannot classify: the value %s returns is not visibly reduced modulo %d' % (fi.qualname, modulus))


def wrapper_defaults(fi):
  """[Site]: a function that hands one of its own parameters straight to a module-level function of the same module must give that
  parameter the default the callee gives it - otherwise calling the wrapper with defaults is not the callee's default behaviour
  (a file writer that trims what the in-memory conversion keeps).  OK / BAD per forwarded parameter that has a default on both
  sides; UNKNOWN when one default is not a literal."""
  out = []
  fn = fi.node

  def defaults(f):
    a = f.args
    pos = a.posonlyargs + a.args
    d = dict((p.arg, v) for p, v in zip(pos[len(pos) - len(a.defaults):], a.defaults))
    d.update((p.arg, v) for p, v in zip(a.kwonlyargs, a.kw_defaults) if v is not None)
    return d, [p.arg for p in pos]
  mine, _ = defaults(fn)
  for c in ast.walk(fn):
    if not (isinstance(c, ast.Call) and isinstance(c.func, ast.Name) and c.func.id in fi.module.functions and c.func.id != fn.name):
      continue
    g = fi.module.functions[c.func.id].node
    theirs, order = defaults(g)
    pairs = [(order[i], a) for i, a in enumerate(c.args) if i < len(order)] + [(k.arg, k.value) for k in c.keywords if k.arg]
    for q, a in pairs:
      if isinstance(a, ast.Name) and a.id in mine and q in theirs:
        # the parameter must reach the call unchanged
        if any(isinstance(t, ast.Name) and t.id == a.id for st in U.walk_stmts(fn) for t, _v, _o in U.store_targets(st)):
          continue
        dm, dt = mine[a.id], theirs[q]
        try:
          vm, vt = ast.literal_eval(dm), ast.literal_eval(dt)
        except (ValueError, SyntaxError):
          out.append(Site('wrapper-default', c, UNKNOWN, 'cannot classify: the defaults of %s (%s) and of %s.%s (%s) are not literals' % (a.id, norm_text(dm), g.name, q, norm_text(dt))))
          continue
        same = (vm == vt and type(vm) is type(vt))
        out.append(Site('wrapper-default', c, OK if same else BAD,
                        ('%s defaults to %r like %s of %s' % (a.id, vm, q, g.name)) if same else
                        '%s hands its parameter %s to %s(%s=...) but defaults it to %r where %s defaults to %r: called with defaults, %s does not do what %s does with defaults' % (
                            fn.name, a.id, g.name, q, vm, g.name, vt, fn.name, g.name)))
  return out


# --------------------------------------------------------------------------------------------------------- self examples
SELF_EXAMPLES = [
    ('previous-wraps', 'def f(pieces, splits, beat):\n  k = bisect.bisect_right(splits, beat.time) - 1\n  if k == len(splits) - 1:\n    return\n  pieces[k].append(beat)\n', BAD),
    ('previous-wraps', 'def f(pieces, splits, beat):\n  k = bisect.bisect_right(splits, beat.time) - 1\n  if k < 0 or k == len(splits) - 1:\n    return\n  pieces[k].append(beat)\n', OK),
    ('case-folded-key', "KINDS = {'major': '', 'minMaj7': 'm(maj7)'}\ndef f(text):\n  kind = text.strip().lower()\n  if kind not in KINDS:\n    raise ValueError(kind)\n  return KINDS[kind]\n", BAD),
    ('case-folded-key', "KINDS = {'major': '', 'minor': 'm'}\ndef f(text):\n  kind = text.strip().lower()\n  return KINDS[kind]\n", OK),
    ('mergefrom-as-assignment', 'def f(piece, a, b):\n  piece.info.MergeFrom(Info(start=a, end=b))\n', BAD),
    ('mergefrom-as-assignment', 'def f(piece, other):\n  piece.info.MergeFrom(other.info)\n', None),
    ('stale-loop-variable', 'def f(m):\n  names = {}\n  for num, inst in enumerate(m.instruments):\n    names[num] = inst.name\n  return [(inst.program, num, cc) for n, i in enumerate(m.instruments) for cc in i.ccs]\n', BAD),
    ('stale-loop-variable', 'def f(m):\n  names = {}\n  for num, inst in enumerate(m.instruments):\n    names[num] = inst.name\n  return [(i.program, n, cc) for n, i in enumerate(m.instruments) for cc in i.ccs]\n', None),
    ('unzip-empty', 'def f(events):\n  pairs = [(g(events, i), h(events, i)) for i in range(len(events) - 1)]\n  a, b = map(list, zip(*pairs))\n  return a, b\n', BAD),
    ('unzip-empty', 'def f(events):\n  pairs = [(g(events, i), h(events, i)) for i in range(len(events) - 1)]\n  if not pairs:\n    return [], []\n  a, b = map(list, zip(*pairs))\n  return a, b\n', OK),
    ('previous-wraps', 'def f(ups, amount):\n  k = sum(1 for h in ups if h <= amount)\n  return amount - ups[k - 1]\n', BAD),
    ('previous-wraps', 'def f(ups, amount):\n  k = sum(1 for h in ups if h <= amount)\n  return amount - (ups[k - 1] if k else 0)\n', OK),
    ('falsy-domain-zero', 'def f(events, d):\n  return (events[-d] if len(events) >= d else None) or MELODY_NO_EVENT\n', BAD),
    ('falsy-domain-zero', 'def f(events, d):\n  repeated = events[-d] if len(events) >= d else None\n  return repeated or MELODY_NO_EVENT\n', BAD),
    ('falsy-domain-zero', 'def f(events, d):\n  repeated = events[-d] if len(events) >= d else None\n  return MELODY_NO_EVENT if repeated is None else repeated\n', None),
    ('shadowed-literal-branch', "def f(s):\n  if s.upper().startswith('C'):\n    return 4\n  elif s.upper() == 'C|':\n    return 2\n  elif s.lower() == 'none':\n    return 0\n", BAD),
    ('shadowed-literal-branch', "def f(s):\n  if s.upper() == 'C':\n    return 4\n  elif s.upper() == 'C|':\n    return 2\n  elif s.lower() == 'none':\n    return 0\n", OK),
    ('misaligned-index', 'def f(roots):\n  cands = [g(r) for r in roots]\n  named = [c for c in cands if c is not None]\n  sizes = [len(c) for c in named]\n  i = sizes.index(max(sizes))\n  return roots[i], named[i]\n', BAD),
    ('misaligned-index', 'def f(roots):\n  cands = [g(r) for r in roots]\n  sizes = [len(c) for c in cands]\n  i = sizes.index(max(sizes))\n  return roots[i], cands[i]\n', OK),
    ('dropped-pop', 'def f(self, n):\n  if self.ev:\n    last = self.ev.pop()\n    if last.kind == 1:\n      if last.v < 9:\n        n += last.v\n      else:\n        self.ev.append(last)\n  self.ev.append(n)\n', BAD),
    ('dropped-pop', 'def f(self, n):\n  if self.ev:\n    last = self.ev.pop()\n    if last.kind == 1 and last.v < 9:\n      n += last.v\n    else:\n      self.ev.append(last)\n  self.ev.append(n)\n', OK),
    ('neg-zero-slice', 'def f(xs, n):\n  k = len(xs) - n\n  if k < 0:\n    return\n  del xs[-k:]\n', BAD),
    ('neg-zero-slice', 'def f(xs, n):\n  k = len(xs) - n\n  if k <= 0:\n    return\n  del xs[-k:]\n', OK),
    ('neg-zero-slice', 'def f(xs, k):\n  if k:\n    return xs[:-k]\n  return xs\n', OK),
    ('previous-wraps', 'def f(xs):\n  return [i for i in range(len(xs)) if xs[i] != xs[i - 1]]\n', BAD),
    ('previous-wraps', 'def f(xs):\n  return [i for i in range(len(xs)) if i == 0 or xs[i] != xs[i - 1]]\n', OK),
    ('previous-wraps', 'def f(xs):\n  for i in range(1, len(xs)):\n    if xs[i] != xs[i - 1]:\n      return i\n', None),
    ('falsy-zero', 'def g(s):\n  return (ord(s) + 1) % 12\ndef f(b, r):\n  p = g(b) if b else None\n  return p or g(r)\n', BAD),
    ('falsy-zero', 'def g(s):\n  return (s, 1)\ndef f(b, r):\n  p = g(b) if b else None\n  return p or g(r)\n', None),
    ('narrowing-cast', 'def f(index):\n  return np.unpackbits(np.array([index]).astype(np.uint8))\n', BAD),
    ('narrowing-cast', 'def f(index):\n  return np.array([index % 12]).astype(np.uint8)\n', OK),
    ('stale-sibling', 'def f(m):\n  t = 0.0\n  prev, scale = m.rows[0]\n  for tick, s in m.rows:\n    t += (tick - prev) * scale\n    prev = tick\n  return t\n', BAD),
    ('falsy-domain-zero', 'def f(notes, instrument=None):\n  return [n for n in notes if not instrument or n.instrument == instrument]\n', BAD),
    ('falsy-domain-zero', 'def f(notes, instrument=None):\n  return [n for n in notes if instrument is None or n.instrument == instrument]\n', None),
    ('falsy-domain-zero', 'def f(notes, limit=None):\n  return [n for n in notes if not limit or n.end_time < limit]\n', None),
    ('falsy-domain-zero', 'def f(notes, instrument=None):\n  wanted = instrument or 0\n  return [n for n in notes if n.instrument == wanted or n.instrument == instrument]\n', None),
    ('stale-sibling', 'def f(m):\n  t = 0.0\n  prev, scale = m.rows[0]\n  for tick, s in m.rows:\n    t += (tick - prev) * scale\n    prev, scale = tick, s\n  return t\n', OK),
]


SELF_EXAMPLES_P = [
    ('reslice-indices', 'class A(object):\n  def _window(self, first, last, stride=1):\n    return self._m[slice(first, last, stride)]\n'
                        '  def __getitem__(self, i):\n    return self._window(*i.indices(len(self)))\n', 'A.__getitem__', BAD),
    ('reslice-indices', 'class A(object):\n  def __getitem__(self, i):\n    return [self._m[k] for k in range(*i.indices(len(self)))]\n', 'A.__getitem__', None),
    ('unforwarded-parameter', 'def g(seq, instrument=None):\n  return [n for n in seq if instrument is None or n.i == instrument]\n'
                              'class A(object):\n  def __init__(self, seq, instrument=0):\n    self.x = g(seq)\n', 'A.__init__', BAD),
    ('unforwarded-parameter', 'def g(seq, instrument=None):\n  return [n for n in seq if instrument is None or n.i == instrument]\n'
                              'class A(object):\n  def __init__(self, seq, instrument=0):\n    self.x = g(seq, instrument)\n', 'A.__init__', OK),
    ('unforwarded-parameter', 'class B(object):\n  def __init__(self, bins=0, limit=100):\n    self.l = limit\n'
                              'class A(B):\n  def __init__(self, bins=0, limit=100):\n    super(A, self).__init__(bins=bins)\n', 'A.__init__', BAD),
    ('dead-parameter', 'NUMBER = 64\ndef h(seq, number):\n  return [c for c in seq if c.n == NUMBER]\ndef f(seq, number=64):\n  return h(seq, number)\n', 'f', BAD),
    ('dead-parameter', 'def h(seq, number):\n  return [c for c in seq if c.n == number]\ndef f(seq, number=64):\n  return h(seq, number)\n', 'f', OK),
]


class _FakeFn:
  def __init__(self, node):
    self.node = node
    self.name = node.name


class _FakeMod:
  def __init__(self, tree):
    self.functions = dict((n.name, _FakeFn(n)) for n in tree.body if isinstance(n, ast.FunctionDef))
    self.assigns = dict((n.targets[0].id, [n.value]) for n in tree.body if isinstance(n, ast.Assign) and len(n.targets) == 1 and isinstance(n.targets[0], ast.Name))


def resolve_callee(fi, call, P):
  """(FuncInfo of the function a call runs, number of leading parameters bound implicitly) or (None, 0): nested helpers, module
  functions, constructors (through the class hierarchy), self.m(...) and super().m(...)."""
  f = call.func
  if isinstance(f, ast.Name):
    cur = fi
    while cur is not None:
      if f.id in cur.nested:
        return cur.nested[f.id], 0
      cur = cur.parent
    r = P.resolve_name(fi.module, f.id)
    if hasattr(r, 'methods'):
      m = P.lookup_method(r, '__init__')
      return (m, 1) if m is not None else (None, 0)
    return (r, 0) if hasattr(r, 'node') and isinstance(r.node, ast.FunctionDef) else (None, 0)
  if isinstance(f, ast.Attribute):
    owner = fi
    while owner is not None and owner.cls is None:
      owner = owner.parent
    cls = owner.cls if owner is not None else None
    if isinstance(f.value, ast.Call) and isinstance(f.value.func, ast.Name) and f.value.func.id == 'super' and cls is not None:
      for c in P.mro(cls)[1:]:
        if f.attr in c.methods:
          return c.methods[f.attr], 1
      return None, 0
    if isinstance(f.value, ast.Name) and f.value.id == 'self' and cls is not None:
      m = P.lookup_method(cls, f.attr)
      if m is not None:
        return m, (0 if m.is_static else 1)
      return None, 0
    r = P.resolve_expr(fi.module, f, cls)
    if hasattr(r, 'methods'):
      m = P.lookup_method(r, '__init__')
      return (m, 1) if m is not None else (None, 0)
    if hasattr(r, 'node') and isinstance(r.node, ast.FunctionDef):
      return r, (1 if r.cls is not None and not r.is_static and not (isinstance(f.value, ast.Name) and f.value.id == 'self') and r.is_classmethod else 0)
  return None, 0


def _param_table(node):
  a = node.args
  pos = a.posonlyargs + a.args
  dflt = dict((p.arg, v) for p, v in zip(pos[len(pos) - len(a.defaults):], a.defaults))
  dflt.update((p.arg, v) for p, v in zip(a.kwonlyargs, a.kw_defaults) if v is not None)
  return [p.arg for p in pos], dflt, [p.arg for p in a.kwonlyargs]


def bound_arguments(call, callee, skip):
  """parameter name -> argument expression for the arguments a call passes (None: *args / **kwargs present)."""
  if any(isinstance(a, ast.Starred) for a in call.args) or any(k.arg is None for k in call.keywords):
    return None
  order, _d, _k = _param_table(callee.node)
  out = dict((order[skip + i], a) for i, a in enumerate(call.args) if skip + i < len(order))
  out.update((k.arg, k.value) for k in call.keywords)
  return out


def unforwarded_parameters(fi, P):
  """A function that has a parameter p and calls a helper / base constructor / own method that has a *defaulted* parameter of the
  same name, without passing it: the helper then works with its default, whatever the caller was given.  Unanimous on the pinned
  tree (every same-named defaulted parameter is forwarded); BAD only when no condition on p guards the call."""
  out = []
  fn = fi.node
  mine = set(_param_table(fn)[0] + _param_table(fn)[2]) - {'self', 'cls'}
  for c in ast.walk(fn):
    if not isinstance(c, ast.Call):
      continue
    g, skip = resolve_callee(fi, c, P)
    if g is None or g.node is fn:
      continue
    bound = bound_arguments(c, g, skip)
    if bound is None:
      continue
    _o, dflt, _k = _param_table(g.node)
    for q in sorted(dflt):
      if q not in mine:
        continue
      if q in bound:
        out.append(Site('unforwarded-parameter', c, OK, '%s passes its %s on to %s' % (fn.name, q, g.qualname)))
        continue
      guarded = [t for t, _p in guards_at(fn, c) if any(isinstance(n, ast.Name) and n.id == q for n in ast.walk(t))]
      why = '%s has a parameter %s and calls %s, which takes %s (default %s), without passing it: %s works with its default whatever %s was given' % (
          fi.qualname, q, g.qualname, q, norm_text(dflt[q]), g.qualname, fi.qualname)
      if guarded:
        out.append(Site('unforwarded-parameter', c, UNKNOWN, 'cannot classify: %s (the call is guarded by %s)' % (why, norm_text(guarded[0]))))
      else:
        out.append(Site('unforwarded-parameter', c, BAD, why))
  return out


def resliced_indices(fi, P):
  """slice.indices(n) resolves a slice against a length, for use with range().  Its result is not a slice to apply again: for a
  negative step an open (or far-left) stop comes back as -1, and -1 as the stop of a *slice* means "up to the last element", so
  `x[::-1]` re-sliced through indices() is empty.  BAD when the resolved stop becomes the stop of a slice with the resolved step and
  nothing restricts the step to positive values."""
  out = []
  fn = fi.node

  def slice_uses(node, stop_name, step_name):
    hits = []
    for x in ast.walk(node):
      if isinstance(x, ast.Call) and dotted(x.func) == 'slice' and len(x.args) == 3 and norm_text(x.args[1]) == stop_name and norm_text(x.args[2]) == step_name:
        hits.append(x)
      if isinstance(x, ast.Slice) and x.upper is not None and x.step is not None and norm_text(x.upper) == stop_name and norm_text(x.step) == step_name:
        hits.append(x)
    return hits
  for c in ast.walk(fn):
    if not isinstance(c, ast.Call):
      continue
    star = [(k, a) for k, a in enumerate(c.args) if isinstance(a, ast.Starred) and isinstance(a.value, ast.Call) and isinstance(a.value.func, ast.Attribute) and a.value.func.attr == 'indices']
    if not star:
      continue
    k, a = star[0]
    if dotted(c.func) == 'slice' and k == 0:
      out.append(Site('reslice-indices', c, BAD, '%s builds a slice from slice.indices(): for a negative step the resolved stop -1 means "the last element" when used as a slice bound, so a reversed '
                      'slice that runs to the left end comes back empty' % norm_text(c)[:60]))
      continue
    g, skip = resolve_callee(fi, c, P)
    if g is None:
      continue
    order = _param_table(g.node)[0]
    if len(order) < skip + k + 3:
      continue
    stop_p, step_p = order[skip + k + 1], order[skip + k + 2]
    hits = slice_uses(g.node, stop_p, step_p)
    guarded = [t for h in hits for t, _p in guards_at(g.node, h) if any(isinstance(n, ast.Name) and n.id == step_p for n in ast.walk(t))]
    if hits and not guarded:
      out.append(Site('reslice-indices', c, BAD, '%s hands the result of slice.indices() to %s, which slices again with it (%s): for a negative step the resolved stop -1 means "the last element" '
                      'as a slice bound, so [::-1] and every reversed slice that reaches the left end comes back empty instead of reversed' % (norm_text(c)[:60], g.qualname, norm_text(hits[0])[:40])))
    elif hits:
      out.append(Site('reslice-indices', c, UNKNOWN, 'cannot classify: %s re-slices with the result of slice.indices() under a condition on the step' % g.qualname))
  for st in U.walk_stmts(fn):
    if isinstance(st, ast.Assign) and len(st.targets) == 1 and isinstance(st.targets[0], ast.Tuple) and len(st.targets[0].elts) == 3 and isinstance(st.value, ast.Call) and \
        isinstance(st.value.func, ast.Attribute) and st.value.func.attr == 'indices' and all(isinstance(e, ast.Name) for e in st.targets[0].elts):
      _a, b, cstep = [e.id for e in st.targets[0].elts]
      hits = slice_uses(fn, b, cstep)
      guarded = [t for h in hits for t, _p in guards_at(fn, h) if any(isinstance(n, ast.Name) and n.id == cstep for n in ast.walk(t))]
      if hits and not guarded:
        out.append(Site('reslice-indices', hits[0], BAD, '%s slices with the stop and step resolved by slice.indices(): for a negative step the stop -1 means "the last element" as a slice bound' % norm_text(hits[0])[:50]))
  return out


# (function, parameter) -> why a parameter that nothing reads is accepted.  Confirmed by reading.
DEAD_PARAMETER_ALLOW = {
    ('sequence_to_pianoroll', 'min_velocity'): 'documented in the signature, never used by the pinned implementation either (velocities are scaled by max_velocity only)',
}


def dead_parameters(fi, P, depth=3):
  """A parameter whose value can have no effect: it is never read, or only handed to helpers whose corresponding parameter is dead
  in turn.  Interface methods (a base class declares the same parameter) are not sites."""
  out = []

  def implements(f, p):
    if f.cls is None:
      return False
    for c in P.mro(f.cls)[1:]:
      m = c.methods.get(f.name)
      if m is not None and p in _param_table(m.node)[0] + _param_table(m.node)[2]:
        return True
    return any(p in _param_table(m.node)[0] for c in P.subclasses(f.cls) for m in [c.methods.get(f.name)] if m is not None) and f.is_abstract

  def dead(f, p, d, seen):
    """True: no read of p in f can have an effect; None: cannot tell."""
    if (id(f.node), p) in seen or d < 0:
      return None
    seen = seen | {(id(f.node), p)}
    body = [s for s in f.node.body if not (isinstance(s, ast.Expr) and isinstance(s.value, ast.Constant))]
    if f.is_abstract or all(isinstance(s, (ast.Pass, ast.Raise)) for s in body):
      return None
    loads = [n for n in ast.walk(f.node) if isinstance(n, ast.Name) and n.id == p and isinstance(n.ctx, (ast.Load, ast.Del))]
    if not loads:
      return True
    pm = U.parents(f.node)
    for n in loads:
      par = pm.get(id(n))
      call = par if isinstance(par, ast.Call) and any(a is n for a in par.args) else (
          pm.get(id(par)) if isinstance(par, ast.keyword) and isinstance(pm.get(id(par)), ast.Call) else None)
      if call is None:
        return False
      g, skip = resolve_callee(f, call, P)
      bound = bound_arguments(call, g, skip) if g is not None else None
      if not bound:
        return False
      q = next((k for k, v in bound.items() if v is n), None)
      if q is None or dead(g, q, d - 1, seen) is not True:
        return False
    return True
  order, _d, kwo = _param_table(fi.node)
  for p in order + kwo:
    if p in ('self', 'cls') or p.startswith(('unused', '_')) or implements(fi, p):
      continue
    r = dead(fi, p, depth, frozenset())
    if r is True and (fi.name, p) in DEAD_PARAMETER_ALLOW:
      out.append(Site('dead-parameter', fi.node, OK, 'allow-listed: %s(%s): %s' % (fi.name, p, DEAD_PARAMETER_ALLOW[(fi.name, p)])))
    elif r is True:
      out.append(Site('dead-parameter', fi.node, BAD, 'the parameter %s of %s has no effect: it is never read, or only handed to helper parameters that are never read' % (p, fi.qualname)))
    elif r is False:
      out.append(Site('dead-parameter', fi.node, OK, 'the parameter %s of %s is read' % (p, fi.qualname)))
  return out


def misaligned_indexes(fn):
  """`X[i]` where i is a position in another list L (`L.index(...)`, `enumerate(L)`, `range(len(L))`): positions carry over only
  between lists that are element-for-element images of each other.  L built from X (or from an image of X) by a comprehension
  *with a filter* is shorter than X wherever an element was dropped: its positions name other elements of X."""
  out = []

  def chain(name, at):
    """[(list name, filtered on the way from `name`?)] for `name` and every list it was derived from."""
    out_, filt, cur, hops = [(name, False)], False, name, 0
    while hops < 8:
      hops += 1
      d = U.reaching_def(fn, cur, at)
      nxt = None
      if isinstance(d, ast.ListComp) and len(d.generators) == 1 and isinstance(d.generators[0].iter, ast.Name):
        filt = filt or bool(d.generators[0].ifs)
        nxt = d.generators[0].iter.id
      elif isinstance(d, ast.Call) and isinstance(d.func, ast.Name) and d.func.id in ('list', 'tuple') and len(d.args) == 1 and isinstance(d.args[0], ast.Name):
        nxt = d.args[0].id
      if nxt is None:
        break
      out_.append((nxt, filt))
      cur = nxt
    return out_
  for n in ast.walk(fn):
    if not (isinstance(n, ast.Subscript) and isinstance(n.slice, ast.Name) and isinstance(n.value, ast.Name) and isinstance(n.ctx, ast.Load)):
      continue
    d = U.reaching_def(fn, n.slice.id, n)
    src = None
    if isinstance(d, ast.Call) and isinstance(d.func, ast.Attribute) and d.func.attr == 'index' and isinstance(d.func.value, ast.Name):
      src = d.func.value.id
    if src is None or src == n.value.id:
      continue
    cs = dict(chain(src, n))
    cx = dict(chain(n.value.id, n))
    common = [k for k in cs if k in cx]
    if not common:
      continue
    k = common[0]
    if cs[k] != cx[k]:
      out.append(Site('misaligned-index', n, BAD, '%s is a position in %s, which %s %s through a comprehension with a filter: wherever the filter dropped an element, %s[%s] is an earlier element of '
                      '%s than the one the position was found for' % (n.slice.id, src, 'was built from' if cs[k] else 'is longer than a filtered copy of', k, n.value.id, n.slice.id, n.value.id)))
    else:
      out.append(Site('misaligned-index', n, OK, '%s and %s are element-for-element images of %s' % (src, n.value.id, k)))
  return out


def shadowed_literal_branches(fn):
  """if / elif chains that dispatch on a text: a branch written for the literal L (`s == L`, `s.upper() == L`, `s in (L, ...)`) is
  reached only if every earlier test of the chain is false for L.  An earlier test that is true for L (a `startswith` that became
  too wide, an `in` that lists L too) takes the input the later branch was written for."""
  from sa import strscen
  out = []
  seen = set()
  for top in ast.walk(fn):
    if not isinstance(top, ast.If) or id(top) in seen:
      continue
    chain, cur = [], top
    while isinstance(cur, ast.If):
      seen.add(id(cur))
      chain.append(cur)
      cur = cur.orelse[0] if len(cur.orelse) == 1 and isinstance(cur.orelse[0], ast.If) else None
    if len(chain) < 2:
      continue
    for k, br in enumerate(chain[1:], 1):
      t = br.test
      if not (isinstance(t, ast.Compare) and len(t.ops) == 1 and isinstance(t.ops[0], (ast.Eq, ast.In))):
        continue
      subj, lit = t.left, t.comparators[0]
      lits = [lit.value] if isinstance(lit, ast.Constant) and isinstance(lit.value, str) else (
          [x.value for x in lit.elts] if isinstance(lit, (ast.Tuple, ast.List, ast.Set)) and all(isinstance(x, ast.Constant) and isinstance(x.value, str) for x in lit.elts) else None)
      if not lits:
        continue
      base = subj
      while isinstance(base, ast.Call) and isinstance(base.func, ast.Attribute) and base.func.attr in ('upper', 'lower', 'strip') and not base.args:
        base = base.func.value
      if not isinstance(base, (ast.Name, ast.Attribute, ast.Subscript)):
        continue
      for L in lits:
        env = {norm_text(base): L}
        if strscen.tv(t, env) is not True:
          continue        # the literal does not even satisfy its own branch in this spelling (case): nothing to say
        for j, prev in enumerate(chain[:k]):
          if strscen.tv(prev.test, env) is True:
            out.append(Site('shadowed-literal-branch', br, BAD, 'the branch for %s = %r (`%s`) is never reached with that text: the earlier test `%s` of the same chain is already true for it' % (
                norm_text(base), L, norm_text(t)[:50], norm_text(prev.test)[:60])))
            break
        else:
          out.append(Site('shadowed-literal-branch', br, OK, 'the branch for %r is reachable: every earlier test of the chain is false or undecided for it' % L))
  return out


def mergefrom_assignments(fn):
  """`target.MergeFrom(Message(field=value, ...))` used to *set* scalar fields: in proto3 a scalar that holds its default (0, 0.0, '',
  False) is not serialised and MergeFrom skips it, so a new value of exactly 0 leaves whatever the target held before.  Setting the
  fields, or CopyFrom, writes them whatever the value."""
  out = []
  for c in ast.walk(fn):
    if isinstance(c, ast.Call) and isinstance(c.func, ast.Attribute) and c.func.attr == 'MergeFrom' and len(c.args) == 1 and isinstance(c.args[0], ast.Call) and c.args[0].keywords and \
        not c.args[0].args:
      kws = [k for k in c.args[0].keywords if k.arg and not isinstance(k.value, (ast.List, ast.Tuple, ast.ListComp))]
      nonzero = [k for k in kws if isinstance(U.const_value(k.value), (int, float)) and U.const_value(k.value) != 0]
      if kws and len(nonzero) < len(kws):
        out.append(Site('mergefrom-as-assignment', c, BAD, '%s sets %s by merging a freshly built message: MergeFrom skips a scalar whose new value is the default (0 / 0.0), so when the new value '
                        'is exactly 0 the field keeps what %s held before' % (norm_text(c)[:60], ', '.join(k.arg for k in kws if k not in nonzero), norm_text(c.func.value))))
  return out


def case_folded_keys(fn, mod, cls=None):
  """A text that was lower-cased (upper-cased) and is then looked up in a module-level table one of whose keys contains an upper-case
  (lower-case) letter: that key can never be found."""
  out = []
  for n in ast.walk(fn):
    key, tab = None, None
    if isinstance(n, ast.Subscript) and isinstance(n.value, (ast.Name, ast.Attribute)):
      key, tab = n.slice, n.value
    elif isinstance(n, ast.Compare) and len(n.ops) == 1 and isinstance(n.ops[0], (ast.In, ast.NotIn)) and isinstance(n.comparators[0], (ast.Name, ast.Attribute)):
      key, tab = n.left, n.comparators[0]
    elif isinstance(n, ast.Call) and isinstance(n.func, ast.Attribute) and n.func.attr == 'get' and n.args and isinstance(n.func.value, (ast.Name, ast.Attribute)):
      key, tab = n.args[0], n.func.value
    if key is None:
      continue
    kx = U.expand_locals(fn, key, at=n)
    fold_ = next((c.func.attr for c in ast.walk(kx) if isinstance(c, ast.Call) and isinstance(c.func, ast.Attribute) and c.func.attr in ('lower', 'upper', 'casefold') and not c.args), None)
    if fold_ is None:
      continue
    tname = tab.id if isinstance(tab, ast.Name) else tab.attr
    vals = getattr(mod, 'assigns', {}).get(tname, [])
    if isinstance(tab, ast.Attribute) and isinstance(tab.value, ast.Name) and tab.value.id in ('self', 'cls') and cls is not None:
      vals = [st.value for st in cls.node.body if isinstance(st, ast.Assign) and len(st.targets) == 1 and isinstance(st.targets[0], ast.Name) and st.targets[0].id == tname]
    if len(vals) != 1 or not isinstance(vals[0], ast.Dict):
      continue
    keys = [k.value for k in vals[0].keys if isinstance(k, ast.Constant) and isinstance(k.value, str)]
    lost = [k for k in keys if (k != k.lower() if fold_ in ('lower', 'casefold') else k != k.upper())]
    if lost:
      out.append(Site('case-folded-key', n, BAD, '%s looks a %s-cased text up in %s, whose key%s %s cannot be spelled that way: %s never found (a text written exactly like the key is '
                      'rejected)' % (norm_text(n)[:60], fold_, tname, 's' if len(lost) > 1 else '', ', '.join(repr(k) for k in lost[:3]), 'they are' if len(lost) > 1 else 'it is')))
    else:
      out.append(Site('case-folded-key', n, OK, 'every key of %s survives .%s()' % (tname, fold_)))
  return out


def stale_loop_variables(fn):
  """Inside a comprehension, a name that is not bound by the comprehension but is the target of an *earlier, finished* for-loop over
  the same iterable as one of the comprehension's generators: it holds the last element of that loop for every element of the
  comprehension.  (The comprehension was a loop body once; its variables were renamed, one use was not.)"""
  out = []
  loops = [l for l in ast.walk(fn) if isinstance(l, ast.For)]
  for comp in ast.walk(fn):
    if not isinstance(comp, (ast.ListComp, ast.SetComp, ast.GeneratorExp, ast.DictComp)):
      continue
    bound = set(t.id for g in comp.generators for t in ast.walk(g.target) if isinstance(t, ast.Name))
    iters = [norm_text(g.iter) for g in comp.generators]
    for lp in loops:
      if any(x is comp for x in ast.walk(lp)):
        continue          # the comprehension is inside that loop: its variables are current
      if getattr(lp, 'end_lineno', lp.lineno) >= comp.lineno:
        continue
      lp_iter = norm_text(lp.iter)
      same_source = any(i == lp_iter or (i.startswith('list(') and i[5:-1] == lp_iter) or (lp_iter.startswith('list(') and lp_iter[5:-1] == i) for i in iters)
      if not same_source:
        continue
      targets = set(t.id for t in ast.walk(lp.target) if isinstance(t, ast.Name)) - bound
      used = sorted(set(n.id for part in ([comp.elt] if hasattr(comp, 'elt') else [comp.key, comp.value]) for n in ast.walk(part)
                        if isinstance(n, ast.Name) and isinstance(n.ctx, ast.Load) and n.id in targets))
      if used:
        out.append(Site('stale-loop-variable', comp, BAD, 'the comprehension over %s uses %s, which it does not bind: %s the loop variable%s of the finished loop at line %d over the same '
                        'sequence, so every element is built from the *last* element of that loop' % (iters[0][:40], ', '.join(used), 'they are' if len(used) > 1 else 'it is',
                                                                                                    's' if len(used) > 1 else '', lp.lineno)))
  return out


def unzip_of_empty(fn):
  """`a, b = zip(*pairs)` (also through map(list, ...)): transposing with zip(*...) gives *no* tuples for an empty input, and the
  unpacking into a fixed number of names raises ValueError - where a loop that appends to a and b would have returned two empty
  lists.  OK when the statement is guarded by the truth / length of the input."""
  out = []
  for st in U.walk_stmts(fn):
    if not (isinstance(st, ast.Assign) and len(st.targets) == 1 and isinstance(st.targets[0], (ast.Tuple, ast.List)) and len(st.targets[0].elts) >= 2):
      continue
    v = st.value
    if isinstance(v, ast.Call) and dotted(v.func) == 'map' and len(v.args) == 2:
      v = v.args[1]
    if not (isinstance(v, ast.Call) and dotted(v.func) == 'zip' and len(v.args) == 1 and isinstance(v.args[0], ast.Starred)):
      continue
    src = v.args[0].value
    stext = norm_text(src)
    d0 = U.reaching_def(fn, src.id, st) if isinstance(src, ast.Name) else src
    if isinstance(d0, (ast.List, ast.Tuple)) and d0.elts:
      out.append(Site('unzip-empty', st, OK, '%s starts as a display with %d element(s): it is never empty' % (stext, len(d0.elts))))
      continue
    guarded = [t for t, p in guards_at(fn, st.value) if _mentions(t, stext) or any(isinstance(c, ast.Call) and dotted(c.func) == 'len' for c in ast.walk(t))]
    if guarded:
      out.append(Site('unzip-empty', st, OK, 'the transposition is guarded by %s' % norm_text(guarded[0])))
    else:
      out.append(Site('unzip-empty', st, BAD, '`%s` unpacks zip(*%s) into %d names: for an empty %s zip yields nothing and the assignment raises ValueError (not enough values to unpack) '
                      'instead of giving %d empty sequences' % (norm_text(st)[:60], stext[:30], len(st.targets[0].elts), stext[:30], len(st.targets[0].elts))))
  return out


def one_sided_wraps(node, modulus=12, names=('NOTES_PER_OCTAVE',)):
  """`E + N if E < 0 else E` where E is a sum: wrapped below 0 only; a value of N or more is left as it is.  Not a site when E
  (read through the locals of the function it stands in) already contains a reduction `% N`: one side is then excluded by
  construction (`natural + alter % 12` is never negative)."""
  out = []
  funcs = [f for f in ast.walk(node) if isinstance(f, (ast.FunctionDef, ast.AsyncFunctionDef))]
  owner = {}
  for f in funcs:
    for x in ast.walk(f):
      owner.setdefault(id(x), f)
  for v in ast.walk(node):
    if not isinstance(v, ast.IfExp):
      continue
    for shifted, plain in ((v.body, v.orelse), (v.orelse, v.body)):
      if isinstance(shifted, ast.BinOp) and isinstance(shifted.op, (ast.Add, ast.Sub)) and (U.const_value(shifted.right) == modulus or (dotted(shifted.right) or '').split('.')[-1] in names) and \
          norm_text(shifted.left) == norm_text(plain):
        f = owner.get(id(v))
        px = U.expand_locals(f, plain, at=v) if f is not None else plain
        if any(isinstance(m, ast.BinOp) and isinstance(m.op, ast.Mod) for m in ast.walk(px)) or any(isinstance(c, ast.Call) and dotted(c.func) == 'divmod' for c in ast.walk(px)):
          continue
        out.append((v, 'below 0' if isinstance(shifted.op, ast.Add) else 'at or above %d' % modulus))
  return out


def dropped_pops(fn):
  """`x = C.pop(...)` in a function whose job is to *add* to C: on every way out (a return, the end of the function, the end of the
  loop body the pop sits in) the removed element has been put back or used - read somewhere other than in a branch condition.  A
  way out on which it was only *tested* loses an element of C.  Removals whose value is not bound (`C.pop()` as a statement,
  `del C[i]`) cannot be followed: "cannot classify"."""
  out = []
  pops = []
  for st in U.walk_stmts(fn):
    if isinstance(st, ast.Assign) and len(st.targets) == 1 and isinstance(st.targets[0], ast.Name) and isinstance(st.value, ast.Call) and \
        isinstance(st.value.func, ast.Attribute) and st.value.func.attr == 'pop':
      pops.append(st)
    elif isinstance(st, ast.Expr) and isinstance(st.value, ast.Call) and isinstance(st.value.func, ast.Attribute) and st.value.func.attr == 'pop':
      out.append(Site('dropped-pop', st, UNKNOWN, 'cannot classify: %s removes an element without binding it' % norm_text(st)))
    elif isinstance(st, ast.Delete) and any(isinstance(t, ast.Subscript) for t in st.targets):
      out.append(Site('dropped-pop', st, UNKNOWN, 'cannot classify: %s removes elements' % norm_text(st)))
  for pop in pops:
    x = pop.targets[0].id
    lost = []

    def uses(node):
      return node is not None and any(isinstance(n, ast.Name) and n.id == x and isinstance(n.ctx, ast.Load) for n in ast.walk(node))

    def walk(stmts, pend, inner):
      """pend: the popped element is still unaccounted for.  inner: we are inside the loop body that contains the pop."""
      for st in stmts:
        if pend is None:
          return None
        if st is pop:
          pend = True
          continue
        if isinstance(st, (ast.FunctionDef, ast.AsyncFunctionDef, ast.ClassDef)):
          if uses(st):
            pend = False
          continue
        if isinstance(st, ast.Return):
          if pend and not uses(st.value):
            lost.append(st)
          return None
        if isinstance(st, ast.Raise):
          return None
        if isinstance(st, ast.If):
          a, b = walk(st.body, pend, inner), walk(st.orelse, pend, inner)
          pend = None if (a is None and b is None) else bool(a) or bool(b)
          continue
        if isinstance(st, (ast.For, ast.While)):
          holds = any(s is pop for s in ast.walk(st))
          if isinstance(st, ast.For) and uses(st.iter):
            pend = False
          r = walk(st.body, pend, holds)
          if holds and r:
            lost.append(st)       # the end of an iteration: the next pop overwrites the name
            r = False
          r2 = walk(st.orelse, bool(pend) or bool(r), inner)
          pend = bool(pend) or bool(r) if r2 is None else r2
          continue
        if isinstance(st, ast.With):
          if any(uses(i.context_expr) for i in st.items):
            pend = False
          pend = walk(st.body, pend, inner)
          continue
        if isinstance(st, ast.Try):
          rs = [walk(st.body, pend, inner)] + [walk(h.body, pend, inner) for h in st.handlers]
          rs = [r for r in rs if r is not None]
          pend = None if not rs else any(rs)
          if st.finalbody and pend is not None:
            pend = walk(st.finalbody, pend, inner)
          continue
        if isinstance(st, (ast.Continue, ast.Break)):
          if pend and inner:
            lost.append(st)
          return None if inner else pend
        if uses(st):
          pend = False
      return pend
    if walk(fn.body, False, False):
      lost.append(fn)
    if not lost:
      out.append(Site('dropped-pop', pop, OK, 'the element removed by %s is put back or used on every way out' % norm_text(pop)))
    for ex in lost:
      conds = [('' if pol else 'not ') + norm_text(t) for t, pol in (U.path_conditions(fn, ex) if ex is not fn else []) if uses(t)]
      where = 'the end of the function' if ex is fn else ('the end of an iteration of the loop at line %d' % ex.lineno if isinstance(ex, (ast.For, ast.While)) else
                                                            '`%s` (line %d)' % (norm_text(ex)[:40], ex.lineno))
      out.append(Site('dropped-pop', pop, BAD, 'the element removed by `%s` is neither put back nor used when control reaches %s%s: it was only tested, and is gone' % (
          norm_text(pop), where, (' with ' + ' and '.join(conds)) if conds else '')))
  return out


DETECT = {
    'dropped-pop': lambda fn, mod: dropped_pops(fn),
    'mergefrom-as-assignment': lambda fn, mod: mergefrom_assignments(fn),
    'case-folded-key': case_folded_keys,
    'stale-loop-variable': lambda fn, mod: stale_loop_variables(fn),
    'unzip-empty': lambda fn, mod: unzip_of_empty(fn),
    'shadowed-literal-branch': lambda fn, mod: shadowed_literal_branches(fn),
    'misaligned-index': lambda fn, mod: misaligned_indexes(fn),
    'neg-zero-slice': lambda fn, mod: neg_zero_slices(fn),
    'previous-wraps': lambda fn, mod: previous_wraps(fn) + searched_position_minus_one(fn),
    'falsy-zero': falsy_zero,
    'narrowing-cast': lambda fn, mod: narrowing_casts(fn),
    'stale-sibling': lambda fn, mod: stale_siblings(fn),
    'falsy-domain-zero': falsy_domain_zero,
}
DETECT_FI = {'wrapper-default': wrapper_defaults, 'case-folded-key': lambda fi: case_folded_keys(fi.node, fi.module, fi.cls)}      # detectors that need the FuncInfo (module context)

_checked = []


def self_check():
  """Every run: the detectors classify the recorded examples as recorded (None: no site reported at all)."""
  if _checked:
    return _checked[0]
  n = 0
  for kind, src, want in SELF_EXAMPLES:
    tree = ast.parse(src)
    mod = _FakeMod(tree)
    fn = mod.functions['f'].node
    sites = DETECT[kind](fn, mod)
    got = None
    if sites:
      got = BAD if any(s.verdict == BAD for s in sites) else (UNKNOWN if any(s.verdict == UNKNOWN for s in sites) else OK)
    if got != want:
      raise AssertionError('pitfall detector %s: example %r classified %s, recorded %s' % (kind, src, got, want))
    n += 1
  from sa import loader
  for kind, src, fname, want in SELF_EXAMPLES_P:
    P = loader.Program.__new__(loader.Program)
    P.repo, P.overlay, P.modules, P.digest = None, {}, {}, None
    mi = loader.ModuleInfo('example', 'example.py', src, 'example.py')
    mi.rel = 'example.py'
    P.modules['example'] = mi
    P._index_module(mi)
    P._link()
    sites = DETECT_P[kind](mi.all_functions[fname], P)
    got = None
    if sites:
      got = BAD if any(s.verdict == BAD for s in sites) else (UNKNOWN if any(s.verdict == UNKNOWN for s in sites) else OK)
    if got != want:
      raise AssertionError('pitfall detector %s: example %r classified %s, recorded %s' % (kind, src, got, want))
    n += 1
  _checked.append(n)
  return n


DETECT_P = {'unforwarded-parameter': unforwarded_parameters, 'dead-parameter': dead_parameters, 'reslice-indices': resliced_indices}      # detectors that resolve callees through the program


def apply(ctx, rule_prefix, funcs, kinds, why_matters):
  """Run the detectors `kinds` over the functions `funcs` (FuncInfo) and record one instance per site found, plus one
  instance per (function, kind) saying that no site exists.  why_matters: kind -> clause of the property the pitfall breaks."""
  n = self_check()
  ctx.count('pitfall_self_examples', n)
  for fi in funcs:
    for kind in kinds:
      sites = DETECT_P[kind](fi, ctx.P) if kind in DETECT_P else (DETECT_FI[kind](fi) if kind in DETECT_FI else DETECT[kind](fi.node, fi.module))
      rule = '%s/%s' % (rule_prefix, kind)
      if not sites:
        ctx.ob(rule, fi, fi.node, True, 'no %s site in %s' % (kind, fi.qualname), construct='%s: no %s site' % (fi.qualname, kind))
      for s in sites:
        if s.verdict == OK:
          ctx.ob(rule, fi, s.node, True, s.why)
        elif s.verdict == BAD:
          ctx.ob(rule, fi, s.node, False, '%s - %s' % (s.why, why_matters.get(kind, '')), definite=True)
        else:
          ctx.ob(rule, fi, s.node, False, s.why, unknown=s.why)
