"""§3.1 OWN rules on top of the points-to interpreter: a function whose contract
says parameter p is *borrowed* must not (a) write through a reference derived
from p, (b) hand a p-derived message to a callee with unknown effect, (c) return
a value through which the caller could reach p."""
from . import loader
from .pts import fmt_ref, fmt_root

# The contract table of DESIGN.md §3.1 (frozen; one reason per row).
NS = 'NoteSequence'
RETURNS_NEW = {
    # function: (param types, flag constants, borrowed params, reason)
    'trim_note_sequence': ({'sequence': NS}, {}, ['sequence'], 'docstring: "A copy of `sequence`"'),
    '_extract_subsequences': ({'sequence': NS}, {}, ['sequence'], 'docstring: "list of new NoteSequence"'),
    'extract_subsequence': ({'sequence': NS}, {}, ['sequence'], 'docstring: "A new NoteSequence"'),
    'shift_sequence_times': ({'sequence': NS}, {}, ['sequence'], 'docstring: "A new NoteSequence with shifted times"'),
    'remove_redundant_data': ({'sequence': NS}, {}, ['sequence'], 'docstring: "Returns a copy"'),
    'concatenate_sequences': ({'sequences': 'list:' + NS}, {}, ['sequences'], 'docstring: "A new sequence"'),
    'merge_sequences': ({'sequences': 'list:' + NS}, {}, ['sequences'], 'docstring: "A new sequence"'),
    'repeat_sequence_to_duration': ({'sequence': NS}, {}, ['sequence'], 'returns the repeated (new) sequence'),
    'expand_section_groups': ({'sequence': NS}, {}, ['sequence'], 'docstring: "A copy of the original sequence"'),
    'split_note_sequence': ({'note_sequence': NS}, {}, ['note_sequence'], 'returns a list of new NoteSequences'),
    'split_note_sequence_on_time_changes': ({'note_sequence': NS}, {}, ['note_sequence'], 'returns a list of new NoteSequences'),
    'split_note_sequence_on_silence': ({'note_sequence': NS}, {}, ['note_sequence'], 'returns a list of new NoteSequences'),
    'quantize_note_sequence': ({'note_sequence': NS}, {}, ['note_sequence'], 'docstring: "The input NoteSequence is copied"'),
    'quantize_note_sequence_absolute': ({'note_sequence': NS}, {}, ['note_sequence'], 'docstring: "The input NoteSequence is copied"'),
    'transpose_note_sequence': ({'ns': NS}, {'in_place': False}, ['ns'], 'in_place=False: a copy is edited'),
    'stretch_note_sequence': ({'note_sequence': NS}, {'in_place': False}, ['note_sequence'], 'in_place=False: "A stretched copy"'),
    'adjust_notesequence_times': ({'ns': NS}, {}, ['ns'], 'docstring: "A new NoteSequence with adjusted times"'),
    'rectify_beats': ({'sequence': NS}, {}, ['sequence'], 'docstring: "Will not be modified"'),
    'apply_sustain_control_changes': ({'note_sequence': NS}, {}, ['note_sequence'], 'docstring: "This object will not be modified"'),
}
READ_ONLY = {
    'is_quantized_sequence': ({'note_sequence': NS}, ['note_sequence']),
    'is_relative_quantized_sequence': ({'note_sequence': NS}, ['note_sequence']),
    'is_absolute_quantized_sequence': ({'note_sequence': NS}, ['note_sequence']),
    'assert_is_quantized_sequence': ({'note_sequence': NS}, ['note_sequence']),
    'assert_is_relative_quantized_sequence': ({'note_sequence': NS}, ['note_sequence']),
    'assert_is_absolute_quantized_sequence': ({'note_sequence': NS}, ['note_sequence']),
    'steps_per_bar_in_quantized_sequence': ({'note_sequence': NS}, ['note_sequence']),
    'sequence_to_pianoroll': ({'sequence': NS}, ['sequence']),
    'sequence_to_valued_intervals': ({'note_sequence': NS}, ['note_sequence']),
}
IN_PLACE = {
    '_quantize_notes': 'docstring: "Will be modified in place"',
    'augment_note_sequence': 'docstring: "the provided ns is modified in place"',
    'infer_dense_chords_for_sequence': 'docstring: "Will be modified in place"',
}
# sequences_lib functions without a NoteSequence parameter
NO_SEQUENCE_PARAM = {
    '_is_power_of_2', 'quantize_to_step', 'steps_per_quarter_to_steps_per_second', '_clamp_transpose',
    '_unscale_velocity', 'pianoroll_to_note_sequence', 'pianoroll_onsets_to_note_sequence',
}


def classify_all(ctx, rule='OWN/classified'):
  """Every top-level function of sequences_lib is in exactly one table row, so a
  new operation cannot dodge the rule (fail closed)."""
  mi = ctx.P.module('sequences_lib')
  for name, fi in mi.functions.items():
    n = sum(name in t for t in (RETURNS_NEW, READ_ONLY, IN_PLACE, NO_SEQUENCE_PARAM))
    if n != 1:
      # a new *private* helper has no contract of its own: it is analysed, inlined, wherever a contract function calls it
      # (the writes it makes are attributed to the caller's arguments); a new public function is a new operation whose
      # contract is not known - the run cannot vouch for it
      if n == 0 and name.startswith('_'):
        ctx.ob(rule, fi, fi.node, True, 'new private helper %s: analysed through the contract functions that call it' % name, construct='%s has no contract of its own' % name)
        continue
      why = 'cannot classify: sequences_lib.%s is not in the ownership contract table (a new operation?)' % name
      ctx.ob(rule, fi, fi.node, False, why, construct='%s is classified' % name, unknown=why)
  for t in (RETURNS_NEW, READ_ONLY):
    for name in t:
      ctx.require(name in mi.functions, 'contract function sequences_lib.%s vanished' % name)


def _chain_text(chain):
  return ' -> '.join('%s@L%d' % c for c in chain) if chain else None


def check_borrowed(ctx, fq, param_types, consts, borrowed, rule='OWN'):
  """Record one obligation per distinct write site / unknown call / return of
  the function (with everything it inlines).  Returns the analysis result."""
  res = ctx.analyze(fq, param_types, consts)
  fi = ctx.P.func(fq)
  it = res.interp
  broots = set(('P', p) for p in borrowed)
  seen = set()
  n = 0
  for w in res.writes:
    k = (id(w.node), w.root, w.path, w.chain)
    if k in seen:
      continue
    seen.add(k)
    bad = w.root in broots or w.root[0] == 'U'
    n += 1
    ctx.ob(rule + '/write', w.func, w.stmt if w.stmt is not None else w.node, not bad,
           ('%s writes %s, which is reachable from the borrowed argument' % (w.op, fmt_ref((w.root, w.path))))
           if bad else ('%s targets %s' % (w.op, fmt_ref((w.root, w.path)))),
           construct='%s | target %s' % (loader.norm_text(w.stmt if w.stmt is not None else w.node), fmt_root(w.root) if bad else 'fresh/result'),
           chain=('entry %s' % fi.qualname) + ((' -> ' + _chain_text(w.chain)) if w.chain else ''))
  seen = set()
  for u in res.unknown_calls:
    roots = set()
    for v in u.args:
      for (r, _p) in it.deep_refs(v):
        roots.add(r)
    bad = bool(roots & broots)
    k = (id(u.node), u.chain)
    if k in seen:
      continue
    seen.add(k)
    ctx.ob(rule + '/unknown-callee', u.func, u.node, not bad,
           'a message reachable from the borrowed argument is passed to %s, whose effect is unknown' % u.name if bad
           else 'unknown callee %s receives only fresh objects' % u.name,
           chain=('entry %s' % fi.qualname) + ((' -> ' + _chain_text(u.chain)) if u.chain else ''))
  for (v, node, chain) in res.returns:
    refs = it.deep_refs(v)
    bad = [r for r in refs if r[0] in broots]
    ctx.ob(rule + '/return', fi, node, not bad,
           'returns a value through which the caller reaches the borrowed argument (%s)' % fmt_ref(bad[0]) if bad
           else 'returned value is rooted only at fresh objects / scalars')
  ctx.count('own_functions')
  ctx.count('own_write_sites', n)
  return res
