"""§3.3 ESC, closed-world mode: a small type-and-effect checker for one function
whose contract is "only exceptions of class S may escape".  Every expression
must be of a form that cannot raise given the (frozen, partly source-verified)
type facts, or be enclosed in a handler that converts to S.  Anything the
checker does not recognise is reported: silence means "cannot raise" under the
stated trusted base."""
import ast

from . import astutil as U
from .loader import norm_text, dotted

BOUNDED = 'int'        # integer that fits int32 (MIDI data bytes, 14/16 bit fields, small counters)
UNBOUNDED = 'bigint'   # integer of arbitrary size
SURROGATE_STR = 'str with possible lone surrogates'


class Issue:
  __slots__ = ('node', 'exc', 'why', 'positive')

  def __init__(self, node, exc, why, positive=False):
    self.node = node
    self.exc = exc      # 'ValueError' | 'Any' | class name
    self.why = why
    # positive: the analysis has established that this recognised form can raise this class here (an unbounded integer
    # stored into an int32 field, a `raise` of another class) - as opposed to "this form is not among the recognised
    # non-raising ones", which only says that the checker cannot classify it
    self.positive = positive


class ClosedWorld:
  def __init__(self, ctx, fi, allowed, attr_types, schema, param_types, call_types=None):
    self.ctx = ctx
    self.fi = fi
    self.allowed = set(allowed)
    self.attr_types = attr_types    # type -> {attr: type}
    self.S = schema
    self.env = dict(param_types)
    self.call_types = call_types or {}
    self.issues = []       # escaped issues
    self.checked = 0       # expression/statement forms examined
    self.stores = 0
    self.handlers = []     # stack of lists of caught classes ('*' = everything)
    self.narrowed = {}     # expression text -> type established by a range guard on the way

  # ------------------------------------------------------------ issues
  def issue(self, node, exc, why, positive=False):
    for caught in reversed(self.handlers):
      if '*' in caught or exc in caught or (exc == 'ValueError' and 'Exception' in caught):
        return
    self.issues.append(Issue(node, exc, why, positive))

  # ------------------------------------------------------------ statements
  def run(self):
    self.block(self.fi.node.body)
    return self.issues

  def block(self, stmts):
    for st in stmts:
      self.stmt(st)

  def stmt(self, st):
    self.checked += 1
    if isinstance(st, ast.Expr):
      if isinstance(st.value, ast.Constant):
        return
      self.expr(st.value)
    elif isinstance(st, ast.Assign):
      t = self.expr(st.value)
      for tgt in st.targets:
        self.assign(tgt, t, st)
    elif isinstance(st, ast.AugAssign):
      self.expr(st.value)
      self.expr(st.target)
    elif isinstance(st, ast.If):
      self.expr(st.test)
      # isinstance narrowing
      saved = dict(self.env)
      nar = self._narrow(st.test)
      if nar:
        self.env[nar[0]] = nar[1]
      self.block(st.body)
      env_then = self.env
      self.env = dict(saved)
      self.block(st.orelse)
      self.env = self._join(env_then, self.env)
      # `if <x outside [lo, hi]>: raise / return / continue` - past it, x lies in [lo, hi]; if that is within int32, x is bounded
      if not st.orelse and U._terminal(st.body):
        for txt in self._range_established(st.test, negate=True):
          self.narrowed[txt] = BOUNDED
    elif isinstance(st, ast.For):
      it = self.expr(st.iter)
      self.assign(st.target, self._elem(it, st.iter), st)
      self.block(st.body)
      self.block(st.orelse)
    elif isinstance(st, ast.While):
      self.expr(st.test)
      self.block(st.body)
    elif isinstance(st, ast.Try):
      caught = []
      for h in st.handlers:
        if h.type is None:
          caught.append('*')
        elif isinstance(h.type, ast.Tuple):
          caught.extend((dotted(e) or '?').split('.')[-1] for e in h.type.elts)
        else:
          caught.append((dotted(h.type) or '?').split('.')[-1])
      if 'BaseException' in caught:
        caught.append('*')
      self.handlers.append(caught)
      self.block(st.body)
      self.handlers.pop()
      for h in st.handlers:
        self.block(h.body)
      self.block(st.orelse)
      self.block(st.finalbody)
    elif isinstance(st, ast.Raise):
      if st.exc is None:
        self.issue(st, 'Any', 'bare re-raise lets the original exception escape')
        return
      from . import astutil as _U
      cls, via = _U.raised_class(self.fi.module, st.exc)
      if isinstance(st.exc, ast.Call):
        for a in st.exc.args:
          self.expr(a)
      if via is not None:
        # the error object is built by a constructor helper of the class: what is raised is an instance of the class, but
        # the helper's own body (formatting, table lookups) runs while the error is being made and is not analysed here
        self.issue(st, 'Any', 'the error is built by %s.%s(...), whose body is not analysed for exceptions of its own' % (cls, via))
      if cls not in self.allowed:
        self.issue(st, cls, 'raises %s, which is not among the allowed classes %s' % (cls, sorted(self.allowed)), positive=True)
    elif isinstance(st, ast.Return):
      if st.value is not None:
        self.expr(st.value)
    elif isinstance(st, (ast.Pass, ast.Continue, ast.Break)):
      pass
    elif isinstance(st, ast.With):
      for it in st.items:
        t = self.expr(it.context_expr)
        if it.optional_vars is not None:
          self.assign(it.optional_vars, t, st)
      self.block(st.body)
    elif isinstance(st, ast.Assert):
      self.issue(st, 'AssertionError', 'assert may raise AssertionError')
    elif isinstance(st, ast.Delete):
      self.issue(st, 'Any', 'del may raise')
    else:
      self.issue(st, 'Any', 'statement form %s is outside the recognised non-raising forms' % type(st).__name__)

  def _join(self, a, b):
    out = {}
    for k in set(a) | set(b):
      if k in a and k in b:
        out[k] = a[k] if a[k] == b[k] else 'unknown'
      else:
        out[k] = a.get(k, b.get(k))
    return out

  def _const(self, node):
    """Integer value of a constant expression (literals, + - * ** on them, module-level constants), else None."""
    if isinstance(node, ast.Constant) and isinstance(node.value, int) and not isinstance(node.value, bool):
      return node.value
    if isinstance(node, ast.UnaryOp) and isinstance(node.op, ast.USub):
      v = self._const(node.operand)
      return None if v is None else -v
    if isinstance(node, ast.BinOp) and isinstance(node.op, (ast.Add, ast.Sub, ast.Mult, ast.Pow)):
      a, b = self._const(node.left), self._const(node.right)
      if a is None or b is None or (isinstance(node.op, ast.Pow) and not 0 <= b <= 128):
        return None
      return {ast.Add: lambda: a + b, ast.Sub: lambda: a - b, ast.Mult: lambda: a * b, ast.Pow: lambda: a ** b}[type(node.op)]()
    if isinstance(node, ast.Name):
      vals = getattr(self.fi.module, 'assigns', {}).get(node.id, [])
      if len(vals) == 1:
        return self._const(vals[0])
    if dotted(node) == 'sys.maxsize':
      return 2 ** 63 - 1
    return None

  def _range_established(self, test, negate):
    """Texts of the expressions x for which (not test, if negate) establishes lo <= x <= hi with [lo, hi] inside int32.
    Recognised: (not) lo <= x <= hi;  x < lo or hi < x  (negated);  hi < x  (negated, values known non-negative: MIDI data)."""
    I32 = 2 ** 31 - 1
    out = []
    t = test
    neg = negate
    while isinstance(t, ast.UnaryOp) and isinstance(t.op, ast.Not):
      t, neg = t.operand, not neg

    def upper(c):
      """(x text, hi) if the comparison c, taken as true, says x <= hi / x < hi."""
      if isinstance(c, ast.Compare) and len(c.ops) == 1:
        l, r = c.left, c.comparators[0]
        if isinstance(c.ops[0], (ast.LtE, ast.Lt)) and self._const(r) is not None:
          return norm_text(l), self._const(r) - (1 if isinstance(c.ops[0], ast.Lt) else 0)
        if isinstance(c.ops[0], (ast.GtE, ast.Gt)) and self._const(l) is not None:
          return norm_text(r), self._const(l) - (1 if isinstance(c.ops[0], ast.Gt) else 0)
      return None

    def too_big(c):
      """(x text, hi) if the comparison c, taken as FALSE, says x <= hi."""
      if isinstance(c, ast.Compare) and len(c.ops) == 1:
        l, r = c.left, c.comparators[0]
        if isinstance(c.ops[0], (ast.Gt, ast.GtE)) and self._const(r) is not None:
          return norm_text(l), self._const(r) - (0 if isinstance(c.ops[0], ast.Gt) else 1)
        if isinstance(c.ops[0], (ast.Lt, ast.LtE)) and self._const(l) is not None:
          return norm_text(r), self._const(l) - (0 if isinstance(c.ops[0], ast.Lt) else 1)
      return None
    if not neg:
      # the test itself holds
      if isinstance(t, ast.Compare) and len(t.ops) == 2 and all(isinstance(o, (ast.LtE, ast.Lt)) for o in t.ops):
        hi = self._const(t.comparators[1])
        if hi is not None and hi <= I32 + (1 if isinstance(t.ops[1], ast.Lt) else 0):
          out.append(norm_text(t.comparators[0]))
      u = upper(t)
      if u and u[1] <= I32:
        out.append(u[0])
    else:
      parts = t.values if isinstance(t, ast.BoolOp) and isinstance(t.op, ast.Or) else [t]
      for c in parts:
        u = too_big(c)
        if u and u[1] <= I32:
          out.append(u[0])
    return out

  def _narrow(self, test):
    if isinstance(test, ast.Call) and dotted(test.func) == 'isinstance' and len(test.args) == 2 and isinstance(test.args[0], ast.Name):
      t = self.call_types.get('isinstance:' + (dotted(test.args[1]) or ''))
      if t:
        return (test.args[0].id, t)
    return None

  def _elem(self, t, node):
    if isinstance(t, tuple) and t[0] == 'list':
      return t[1]
    if isinstance(t, tuple) and t[0] == 'rep':
      return ('msg', t[1])
    if t == 'ndarray':
      return 'float'
    if isinstance(t, tuple) and t[0] == 'zip':
      return ('tuple', [self._elem(x, node) for x in t[1]])
    if isinstance(t, tuple) and t[0] == 'enumerate':
      return ('tuple', [BOUNDED, self._elem(t[1], node)])
    self.issue(node, 'Any', 'iteration over a value of unknown type (%s)' % (t,))
    return 'unknown'

  def assign(self, tgt, t, st):
    if isinstance(tgt, ast.Name):
      self.env[tgt.id] = t
    elif isinstance(tgt, (ast.Tuple, ast.List)):
      if isinstance(t, tuple) and t[0] == 'tuple' and len(t[1]) == len(tgt.elts):
        for e, x in zip(tgt.elts, t[1]):
          self.assign(e, x, st)
      else:
        self.issue(tgt, 'ValueError', 'tuple unpacking of a value whose arity is not known to match')
        for e in tgt.elts:
          self.assign(e, 'unknown', st)
    elif isinstance(tgt, ast.Attribute):
      bt = self.expr(tgt.value)
      self.store(tgt, bt, t, st)
    else:
      self.issue(tgt, 'Any', 'store through %s is outside the recognised forms' % type(tgt).__name__)

  def store(self, tgt, bt, vt, st, field=None):
    """An attribute store `<msg>.<field> = v`, or (field given) the keyword `field=v` of `<repeated>.add(field=v)`, which
    protobuf type-checks in the same way.  tgt: the node the finding is reported at."""
    self.stores += 1
    if not (isinstance(bt, tuple) and bt[0] == 'msg'):
      self.issue(tgt, 'Any', 'attribute store on a value that is not a known protobuf message')
      return
    m = self.S.msg(bt[1])
    name = field if field is not None else tgt.attr
    f = m.fields.get(name) if m else None
    if f is None:
      self.issue(tgt, 'AttributeError' if field is None else 'ValueError', '%s has no field %s' % (bt[1], name))
      return
    if f.repeated or f.kind == 'message':
      self.issue(tgt, 'AttributeError', 'assignment to a repeated/message field %s' % name)
      return
    if f.kind == 'enum':
      if vt not in ('enumconst', BOUNDED, 'bool'):
        self.issue(tgt, 'ValueError', 'enum field %s receives a value of type %s' % (name, vt))
      return
    ft = f.type
    if ft in ('double', 'float'):
      if vt not in ('float', BOUNDED, UNBOUNDED, 'bool'):
        self.issue(tgt, 'TypeError', 'float field %s receives a value of type %s' % (name, vt))
    elif ft in ('int32', 'sint32', 'sfixed32', 'int64', 'sint64', 'uint32', 'uint64'):
      if vt == UNBOUNDED and ft in ('int32', 'sint32', 'sfixed32', 'uint32'):
        self.issue(tgt, 'ValueError', 'int32 field %s receives an integer that is not bounded by the MIDI field widths (protobuf raises ValueError when it does not fit)' % name,
                   positive=True)
      elif vt not in (BOUNDED, 'bool', UNBOUNDED):
        self.issue(tgt, 'TypeError', 'integer field %s receives a value of type %s' % (name, vt))
    elif ft == 'bool':
      if vt not in ('bool', BOUNDED):
        self.issue(tgt, 'TypeError', 'bool field %s receives a value of type %s' % (name, vt))
    elif ft in ('string', 'bytes'):
      if vt == SURROGATE_STR and ft == 'string':
        self.issue(tgt, 'UnicodeEncodeError', 'string field %s receives text decoded with errors=\'surrogateescape\': a byte that is not valid in the codec becomes a lone '
                   'surrogate, which the protobuf string field refuses with UnicodeEncodeError' % name, positive=True)
      elif vt != 'str':
        self.issue(tgt, 'TypeError', 'string field %s receives a value of type %s' % (name, vt))

  # ------------------------------------------------------------ expressions
  def expr(self, node):
    self.checked += 1
    m = getattr(self, 'x_' + type(node).__name__, None)
    if m is None:
      self.issue(node, 'Any', 'expression form %s is outside the recognised non-raising forms' % type(node).__name__)
      return 'unknown'
    return m(node)

  def x_Constant(self, node):
    v = node.value
    if isinstance(v, bool):
      return 'bool'
    if isinstance(v, int):
      return BOUNDED if abs(v) < 2 ** 31 else UNBOUNDED
    if isinstance(v, float):
      return 'float'
    if isinstance(v, str):
      return 'str'
    if v is None:
      return 'none'
    return 'unknown'

  def x_Name(self, node):
    if node.id in self.env:
      return self.env[node.id]
    if node.id in self.call_types.get('modules', ()):
      return 'module'
    if node.id in ('True', 'False'):
      return 'bool'
    if node.id == 'None':
      return 'none'
    # a module-level name of the repository (class, function, constant)
    return ('global', node.id)

  def x_Attribute(self, node):
    d = dotted(node)
    if norm_text(node) in self.narrowed:
      self.expr(node.value)
      return self.narrowed[norm_text(node)]
    if d in self.call_types.get('enumconsts', {}):
      return 'enumconst'
    if d and d.startswith('music_pb2.'):
      rest = d[len('music_pb2.'):]
      if self.S.enum_value(rest) is not None:
        return 'enumconst'
      if self.S.msg(rest) is not None:
        return ('global', d)
    bt = self.expr(node.value)
    if bt == 'module' or (isinstance(bt, tuple) and bt[0] == 'global'):
      return ('global', d)
    if isinstance(bt, tuple) and bt[0] == 'msg':
      m = self.S.msg(bt[1])
      f = m.fields.get(node.attr) if m else None
      if f is None:
        if m is not None and any(node.attr in vals for vals in m.enums.values()):
          return 'enumconst'
        self.issue(node, 'AttributeError', '%s has no field %s' % (bt[1], node.attr))
        return 'unknown'
      if f.repeated:
        return ('rep', f.type) if f.kind == 'message' else ('list', 'str')
      if f.kind == 'message':
        return ('msg', f.type)
      if f.kind == 'enum':
        return BOUNDED
      return {'double': 'float', 'float': 'float', 'bool': 'bool', 'string': 'str', 'bytes': 'str'}.get(f.type, BOUNDED)
    tab = self.attr_types.get(bt) if isinstance(bt, str) else None
    if tab is not None:
      if node.attr in tab:
        return tab[node.attr]
      self.issue(node, 'AttributeError', 'attribute %s is not among the known attributes of %s' % (node.attr, bt))
      return 'unknown'
    self.issue(node, 'AttributeError', 'attribute access on a value of unknown type (%s)' % (bt,))
    return 'unknown'

  def x_BoolOp(self, node):
    for v in node.values:
      self.expr(v)
    return 'bool'

  def x_UnaryOp(self, node):
    t = self.expr(node.operand)
    return 'bool' if isinstance(node.op, ast.Not) else t

  def x_Compare(self, node):
    ts = [self.expr(node.left)] + [self.expr(c) for c in node.comparators]
    for op in node.ops:
      if isinstance(op, (ast.In, ast.NotIn)):
        self.issue(node, 'TypeError', 'membership test')
    if any(t == 'unknown' for t in ts):
      self.issue(node, 'TypeError', 'comparison involving a value of unknown type')
    return 'bool'

  def x_BinOp(self, node):
    lt = self.expr(node.left)
    if isinstance(node.op, ast.Mod) and lt == 'str':
      # string formatting with simple values
      r = node.right
      vals = r.elts if isinstance(r, ast.Tuple) else [r]
      for v in vals:
        self.expr(v)
      n_spec = norm_text(node.left).count('%') - 2 * norm_text(node.left).count('%%')
      if isinstance(node.left, ast.Constant) and n_spec != len(vals):
        self.issue(node, 'TypeError', 'format string expects %d values, %d given' % (n_spec, len(vals)))
      return 'str'
    rt = self.expr(node.right)
    nums = (BOUNDED, UNBOUNDED, 'float', 'bool')
    if lt not in nums or rt not in nums:
      self.issue(node, 'TypeError', 'arithmetic on values of type %s and %s' % (lt, rt))
      return 'unknown'
    if isinstance(node.op, (ast.Div, ast.FloorDiv, ast.Mod)):
      c = U.const_value(node.right)
      if c is None or c == 0:
        self.issue(node, 'ZeroDivisionError', 'division by a value that is not a non-zero constant')
      if isinstance(node.op, ast.Mod) and c:
        return BOUNDED if lt in (BOUNDED, UNBOUNDED, 'bool') else 'float'
      if isinstance(node.op, ast.FloorDiv) and c:
        return lt if lt != 'bool' else BOUNDED
      return 'float'
    if isinstance(node.op, ast.Pow):
      return UNBOUNDED if 'float' not in (lt, rt) else 'float'
    if 'float' in (lt, rt):
      return 'float'
    return UNBOUNDED if UNBOUNDED in (lt, rt) or isinstance(node.op, ast.Mult) else BOUNDED

  def x_Tuple(self, node):
    return ('tuple', [self.expr(e) for e in node.elts])

  def x_List(self, node):
    ts = [self.expr(e) for e in node.elts]
    return ('list', ts[0] if ts and all(t == ts[0] for t in ts) else 'unknown')

  def x_IfExp(self, node):
    self.expr(node.test)
    a, b = self.expr(node.body), self.expr(node.orelse)
    return a if a == b else 'unknown'

  def x_JoinedStr(self, node):
    for v in node.values:
      if isinstance(v, ast.FormattedValue):
        self.expr(v.value)
    return 'str'

  def x_Subscript(self, node):
    bt = self.expr(node.value)
    i = U.const_value(node.slice)
    if isinstance(bt, tuple) and bt[0] == 'tuple' and isinstance(i, int) and -len(bt[1]) <= i < len(bt[1]):
      return bt[1][i]
    self.expr(node.slice) if not isinstance(node.slice, ast.Slice) else None
    self.issue(node, 'IndexError', 'subscript %s may raise IndexError/KeyError' % norm_text(node))
    return 'unknown'

  # comprehensions over typed iterables: the target is scoped to the comprehension
  def _comp(self, node, elts):
    saved = dict(self.env)
    for g in node.generators:
      it = self.expr(g.iter)
      self.assign(g.target, self._elem(it, g.iter), node)
      for c in g.ifs:
        self.expr(c)
    ts = [self.expr(e) for e in elts]
    self.env = saved
    return ts

  def x_GeneratorExp(self, node):
    return ('list', self._comp(node, [node.elt])[0])

  def x_ListComp(self, node):
    return ('list', self._comp(node, [node.elt])[0])

  def x_SetComp(self, node):
    return ('list', self._comp(node, [node.elt])[0])

  _NUM = (BOUNDED, UNBOUNDED, 'float', 'bool')

  def _builtin(self, d, node, argt):
    """Total (or precisely partial) builtins on typed values; None if not handled."""
    kw = {k.arg: k.value for k in node.keywords}
    if d in ('max', 'min'):
      if len(argt) >= 2 and not (set(kw) - {'default'}) and all(t in self._NUM for t in argt):
        return 'float' if 'float' in argt else (UNBOUNDED if UNBOUNDED in argt else BOUNDED)
      if len(argt) == 1 and isinstance(argt[0], tuple) and argt[0][0] == 'list' and argt[0][1] in self._NUM and not (set(kw) - {'default'}):
        if 'default' not in kw:
          self.issue(node, 'ValueError', '%s() of a possibly empty iterable without default' % d)
          return argt[0][1]
        dt = self.expr(kw['default'])
        if dt not in self._NUM:
          self.issue(node, 'TypeError', '%s() default of type %s' % (d, dt))
        return 'float' if 'float' in (argt[0][1], dt) else argt[0][1]
      return None
    if d == 'len' and len(argt) == 1 and isinstance(argt[0], tuple) and argt[0][0] in ('list', 'rep', 'tuple'):
      return BOUNDED
    if d == 'abs' and len(argt) == 1 and argt[0] in self._NUM:
      return argt[0] if argt[0] != 'bool' else BOUNDED
    if d in ('float', 'bool') and len(argt) == 1 and argt[0] in self._NUM:
      return d
    if d == 'list' and len(argt) == 1 and isinstance(argt[0], tuple) and argt[0][0] in ('list', 'rep'):
      return ('list', self._elem(argt[0], node))
    if d in ('any', 'all') and len(argt) == 1 and isinstance(argt[0], tuple) and argt[0][0] == 'list':
      return 'bool'
    return None

  def _codec(self, node, bt, meth):
    """str.encode / bytes.decode with literal codec and error handler.  Text types: 'str' holds no lone surrogate (it can always be
    encoded as UTF-8, which is what a protobuf string field does); SURROGATE_STR may hold some (the result of decoding with
    errors='surrogateescape' bytes that are not known to be valid); 'bytes:utf8' is the UTF-8 encoding of a 'str'."""
    args = list(node.args) + [None, None]
    codec = next((k.value for k in node.keywords if k.arg == 'encoding'), args[0])
    errors = next((k.value for k in node.keywords if k.arg == 'errors'), args[1])
    lit = lambda x: x.value if isinstance(x, ast.Constant) else None      # noqa: E731
    codec = lit(codec) if codec is not None else 'utf-8'
    errors = lit(errors) if errors is not None else 'strict'
    if not isinstance(codec, str) or not isinstance(errors, str):
      self.issue(node, 'Any', '%s with a codec or error handler that is not a literal' % norm_text(node)[:50])
      return 'bytes' if meth == 'encode' else 'str'
    c = codec.lower().replace('_', '-')
    utf8 = c in ('utf-8', 'utf8')
    total = c in ('latin-1', 'latin1', 'iso-8859-1', 'iso8859-1', 'l1', 'cp437', 'cp850')     # every byte decodes
    lenient = errors in ('ignore', 'replace', 'backslashreplace', 'xmlcharrefreplace', 'namereplace')
    if meth == 'encode':
      if bt == SURROGATE_STR and errors not in ('surrogateescape', 'surrogatepass') and not lenient:
        self.issue(node, 'UnicodeEncodeError', '%s encodes text that may hold lone surrogates' % norm_text(node)[:60], positive=True)
        return 'bytes'
      if utf8 or lenient or errors == 'surrogateescape':
        return 'bytes:utf8' if utf8 and bt == 'str' else 'bytes'
      self.issue(node, 'Any', '%s: whether every character fits %s is a fact about the text, which is not modelled' % (norm_text(node)[:50], codec))
      return 'bytes'
    # decode
    if total or lenient or (utf8 and bt == 'bytes:utf8'):
      return 'str'
    if errors in ('surrogateescape',):
      return SURROGATE_STR
    self.issue(node, 'UnicodeDecodeError', '%s raises UnicodeDecodeError for bytes that are not valid %s' % (norm_text(node)[:60], codec), positive=True)
    return 'str'

  def x_Call(self, node):
    f = node.func
    d = dotted(f)
    argt = [self.expr(a) for a in node.args if not isinstance(a, ast.Starred)]
    for k in node.keywords:
      self.expr(k.value)
    if isinstance(f, ast.Name) and d not in self.call_types and d not in self.env:
      bt_ = self._builtin(d, node, argt)
      if bt_ is not None:
        return bt_
    if isinstance(f, ast.Attribute):
      bt = self.expr(f.value)
      if isinstance(bt, tuple) and bt[0] == 'rep' and f.attr == 'add' and not node.args and all(k.arg is not None for k in node.keywords):
        # add(field=value, ...) type-checks every keyword like the corresponding attribute store
        for k in node.keywords:
          self.store(k, ('msg', bt[1]), self.expr(k.value), node, field=k.arg)
        return ('msg', bt[1])
      if isinstance(bt, tuple) and bt[0] == 'list' and f.attr == 'append' and len(node.args) == 1:
        if bt[1] == 'unknown' or bt[1] is None:
          # learn the element type of a freshly created list
          if isinstance(f.value, ast.Name):
            self.env[f.value.id] = ('list', argt[0])
        return 'none'
      if bt in ('str', SURROGATE_STR) and f.attr == 'encode' or (isinstance(bt, str) and bt.startswith('bytes') and f.attr == 'decode'):
        return self._codec(node, bt, f.attr)
      key = '%s.%s' % (bt if isinstance(bt, str) else '?', f.attr)
      if key in self.call_types:
        return self.call_types[key]
    if d in self.call_types:
      t = self.call_types[d]
      if callable(t):
        return t(self, node, argt)
      return t
    self.issue(node, 'Any', 'call of %s: its possible exceptions are unknown' % (d or norm_text(f)))
    return 'unknown'
