"""Tie analysis for sorted note traversals (C12).

`sorted(notes, key=K)` is stable: notes that tie under K are visited in storage
order.  The result is independent of storage order only if the consumer cannot
tell tied notes apart in an order-sensitive way.  For every note sort of a
function the analysis computes

  key fields      F_K  the note attributes K reads (with start_time determining
                       quantized_start_step etc., since quantization is monotone);
  sensitive reads      the note attributes the consumer reads (a) in the value /
                       index / guards of a non-commutative update of a variable
                       carried between iterations, (b) in a "last writer wins"
                       store into a shared object, (c) anywhere in a region whose
                       execution depends on a carried variable (first-wins /
                       emit-on-change logic);
  residual        R = sensitive reads - closure(F_K).

R = {} means tied notes are indistinguishable wherever order could matter.  A
non-empty R is compared with a triaged allow-table by the rule module.
Everything is syntactic + def-use inside one function."""
import ast

from . import astutil as U
from . import ordr
from .loader import norm_text, dotted

DETERMINES = {'start_time': {'quantized_start_step'}, 'end_time': {'quantized_end_step'}, 'time': {'quantized_step'},
              'quantized_start_step': set(), 'quantized_end_step': set()}
NOTE_FIELDS = {'pitch', 'velocity', 'start_time', 'end_time', 'quantized_start_step', 'quantized_end_step', 'instrument', 'program', 'is_drum',
               'numerator', 'denominator', 'voice', 'part', 'pitch_name'}


def closure(fields):
  out = set(fields)
  for f in list(fields):
    out |= DETERMINES.get(f, set())
  return out


class Sensitive:
  __slots__ = ('stmt', 'kind', 'fields')

  def __init__(self, stmt, kind, fields):
    self.stmt, self.kind, self.fields = stmt, kind, fields


class SortSite:
  __slots__ = ('call', 'stmt', 'key', 'key_fields', 'name', 'loops', 'sensitive', 'residual')

  def __init__(self, call, stmt, key, key_fields, name):
    self.call, self.stmt, self.key, self.key_fields, self.name = call, stmt, key, key_fields, name
    self.loops = []
    self.sensitive = []
    self.residual = {}


class FuncTies:
  def __init__(self, fi):
    self.fi = fi
    self.fn = fi.node
    self.stmts = list(U.walk_stmts(self.fn))
    self.defs = {}
    for st in self.stmts:
      if isinstance(st, (ast.Assign, ast.AnnAssign)):
        for tgt, val, op in U.store_targets(st):
          if isinstance(tgt, ast.Name) and op == 'store' and val is not None:
            self.defs.setdefault(tgt.id, []).append((st, val))

  # ------------------------------------------------------------ note sorts
  def _mentions_notes(self, node, depth=0):
    if depth > 4 or node is None:
      return False
    for n in ast.walk(node):
      if isinstance(n, ast.Attribute) and n.attr == 'notes':
        return True
    for n in ast.walk(node):
      if isinstance(n, ast.Name) and isinstance(n.ctx, ast.Load):
        for (_st, val) in self.defs.get(n.id, []):
          if self._mentions_notes(val, depth + 1):
            return True
    return False

  @staticmethod
  def key_fields(key):
    if key is None:
      return None
    if isinstance(key, ast.Lambda) and len(key.args.args) == 1:
      p = key.args.args[0].arg
      return set(n.attr for n in ast.walk(key.body) if isinstance(n, ast.Attribute) and isinstance(n.value, ast.Name) and n.value.id == p)
    if isinstance(key, ast.Call) and (dotted(key.func) or '').endswith('attrgetter'):
      return set(a.value for a in key.args if isinstance(a, ast.Constant) and isinstance(a.value, str))
    return None

  def sort_sites(self):
    out = []
    for st in self.stmts:
      for node in ordr._own_exprs(st):
        for c in ast.walk(node):
          if isinstance(c, ast.Call) and dotted(c.func) == 'sorted' and c.args and self._mentions_notes(c.args[0]):
            key = next((k.value for k in c.keywords if k.arg == 'key'), None)
            kf = self.key_fields(key)
            if kf is None:
              continue     # natural order / opaque key: not a note-attribute sort (handled by the ORD rules)
            name = None
            if isinstance(st, ast.Assign) and st.value is c and len(st.targets) == 1 and isinstance(st.targets[0], ast.Name):
              name = st.targets[0].id
            out.append(SortSite(c, st, key, kf, name))
    return out

  # ------------------------------------------------------------ consumers
  def consumers(self, site):
    """[(loop, elem_names, elem_subscript_base)] for loops that consume the sorted list."""
    res = []
    for st in self.stmts:
      if not isinstance(st, ast.For):
        continue
      if st.iter is site.call:
        res.append((st, set(n.id for n in ast.walk(st.target) if isinstance(n, ast.Name)), None))
      elif site.name is not None and st.lineno > site.stmt.lineno:
        it = st.iter
        if isinstance(it, ast.Name) and it.id == site.name:
          res.append((st, set(n.id for n in ast.walk(st.target) if isinstance(n, ast.Name)), None))
        elif isinstance(it, ast.Call) and dotted(it.func) == 'enumerate' and it.args and isinstance(it.args[0], ast.Name) and it.args[0].id == site.name and \
            isinstance(st.target, ast.Tuple) and len(st.target.elts) == 2 and isinstance(st.target.elts[1], ast.Name):
          res.append((st, {st.target.elts[1].id}, None))
        elif any(isinstance(n, ast.Subscript) and isinstance(n.value, ast.Name) and n.value.id == site.name for n in ast.walk(st)) and \
            not any(st is not l and any(x is st for x in ast.walk(l)) for (l, _e, _b) in res):
          res.append((st, set(), site.name))
    return res

  def _elem_fields(self, node, elems, base, temps):
    """Note fields read from an element by expression `node` (through same-iteration temporaries)."""
    out = set()
    if node is None:
      return out
    for n in ast.walk(node):
      if isinstance(n, ast.Attribute):
        v = n.value
        if isinstance(v, ast.Name) and v.id in elems:
          out.add(n.attr)
        elif base is not None and isinstance(v, ast.Subscript) and isinstance(v.value, ast.Name) and v.value.id == base:
          out.add(n.attr)
      elif isinstance(n, ast.Name) and isinstance(n.ctx, ast.Load) and n.id in temps:
        out |= temps[n.id]
    return out

  def analyse(self, site):
    for (loop, elems, base) in self.consumers(site):
      site.loops.append(loop)
      body = loop.body
      # names holding an element (x = N[idx])
      elems = set(elems)
      for st in U.walk_stmts(ordr._Body(body)):
        if isinstance(st, ast.Assign) and len(st.targets) == 1 and isinstance(st.targets[0], ast.Name) and base is not None and \
            isinstance(st.value, ast.Subscript) and isinstance(st.value.value, ast.Name) and st.value.value.id == base:
          elems.add(st.targets[0].id)
      # same-iteration temporaries and the element fields they carry (fixpoint)
      temps = {}
      assigned = ordr._assigned_names(body)
      ue, _m = ordr._upward_exposed(body, set())
      after = self._reads_after(loop)
      targets = set(n.id for n in ast.walk(loop.target) if isinstance(n, ast.Name))
      carried = set(n for n in assigned if (n in ue or n in after) and n not in targets and n not in elems)
      # objects (not created in this iteration) that the body both changes through a method call / store and reads:
      # state carried between iterations inside an object (e.g. self._events via self._add_note / self._get_last_on_off_events)
      changed_bases, read_bases = set(), set()
      for st in U.walk_stmts(ordr._Body(body)):
        if isinstance(st, ast.Expr) and isinstance(st.value, ast.Call) and isinstance(st.value.func, ast.Attribute):
          bb = ordr._base_name(st.value.func.value)
          if bb is not None and bb not in elems and not (dotted(st.value.func) or '').startswith(ordr.LOG_PREFIX) and bb not in self.fi.module.imports:
            changed_bases.add(bb)
        for node in ordr._own_exprs(st):
          for c in ast.walk(node):
            if isinstance(c, ast.Call) and isinstance(c.func, ast.Attribute) and not (isinstance(st, ast.Expr) and st.value is c):
              bb = ordr._base_name(c.func.value)
              if bb is not None:
                read_bases.add(bb)
            elif isinstance(c, ast.Call) and isinstance(c.func, ast.Name) and c.func.id == 'len' and c.args:
              bb = ordr._base_name(c.args[0]) if isinstance(c.args[0], (ast.Attribute, ast.Subscript, ast.Name)) else None
              if isinstance(c.args[0], ast.Name):
                bb = c.args[0].id
              if bb is not None:
                read_bases.add(bb)
            elif isinstance(c, ast.UnaryOp) and isinstance(c.op, ast.Not) and isinstance(c.operand, ast.Attribute):
              bb = ordr._base_name(c.operand)
              if bb is not None:
                read_bases.add(bb)
      fresh_objs = set(n for n in assigned if self._is_fresh_base(n, body) or self._is_fresh_list(n, body))
      obj_carried = set(x for x in (changed_bases & read_bases) if x not in fresh_objs and x not in targets)
      carried |= obj_carried

      def all_targets(st):
        out = []
        tg = st.targets if isinstance(st, ast.Assign) else [st.target]
        for t in tg:
          for e in (t.elts if isinstance(t, (ast.Tuple, ast.List)) else [t]):
            if isinstance(e, ast.Name):
              out.append(e.id)
        return out

      derived = set()     # temporaries computed from carried state in this iteration
      for _ in range(6):
        changed = False
        for st in U.walk_stmts(ordr._Body(body)):
          if isinstance(st, (ast.Assign, ast.AugAssign)):
            val = st.value
            f = self._elem_fields(val, elems, base, temps)
            reads = ordr._loads(val)
            der = bool(reads & (carried | derived)) or any(ordr._base_name(c.func.value) in carried for c in ast.walk(val)
                                                             if isinstance(c, ast.Call) and isinstance(c.func, ast.Attribute))
            for name in all_targets(st):
              if name in carried and name not in obj_carried:
                continue
              if not f <= temps.get(name, set()):
                temps[name] = temps.get(name, set()) | f
                changed = True
              if der and name not in derived:
                derived.add(name)
                changed = True
        if not changed:
          break
      state_names = carried | derived
      # fields a carried variable depends on (so that guards reading it inherit them)
      cdeps = {}
      for _ in range(6):
        changed = False
        for st in U.walk_stmts(ordr._Body(body)):
          if isinstance(st, (ast.Assign, ast.AugAssign)):
            for tgt, val, op in U.store_targets(st):
              if isinstance(tgt, ast.Name) and tgt.id in carried:
                f = self._elem_fields(val, elems, base, temps)
                for n in ordr._loads(val) if val is not None else ():
                  f |= cdeps.get(n, set())
                for (t, _pol) in U.enclosing_tests(self.fn, st, stop_at=loop):
                  f |= self._elem_fields(t, elems, base, temps)
                if not f <= cdeps.get(tgt.id, set()):
                  cdeps[tgt.id] = cdeps.get(tgt.id, set()) | f
                  changed = True
        if not changed:
          break

      def guard_fields(st):
        f = set()
        for (t, _pol) in U.enclosing_tests(self.fn, st, stop_at=loop):
          f |= self._elem_fields(t, elems, base, temps)
        return f

      def under_carried_guard(st):
        for (t, _pol) in U.enclosing_tests(self.fn, st, stop_at=loop):
          if ordr._loads(t) & state_names:
            return True
        # a conditional continue/break earlier in the same block whose test reads a carried variable guards what follows
        blk = self._block_of(st, loop)
        if blk is not None:
          idx = next(i for i, s in enumerate(blk) if s is st)
          for prev in blk[:idx]:
            if isinstance(prev, ast.If) and (ordr._loads(prev.test) & state_names) and any(isinstance(x, (ast.Continue, ast.Break)) for x in ast.walk(prev)):
              return True
        return False

      for st in U.walk_stmts(ordr._Body(body)):
        if isinstance(st, (ast.Assign, ast.AugAssign, ast.AnnAssign)):
          for tgt, val, op in U.store_targets(st):
            if isinstance(tgt, ast.Name) and tgt.id in carried:
              if ordr._is_reduction(st, tgt.id, op, val, self.fn) or (op == 'store' and isinstance(val, ast.Constant)):
                continue
              f = self._elem_fields(val, elems, base, temps) | guard_fields(st)
              site.sensitive.append(Sensitive(st, 'carried %s' % tgt.id, f))
            elif isinstance(tgt, (ast.Attribute, ast.Subscript)):
              b = ordr._base_name(tgt)
              if b is None or b in elems or b in targets or b in temps and not (b in carried):
                continue
              if op != 'store':
                continue       # += into shared cells commutes
              ttxt = norm_text(tgt)
              vtxt = norm_text(val) if val is not None else ''
              tests = U.enclosing_tests(self.fn, st, stop_at=loop)
              if any(U.is_gt_guard(tp, vtxt, ttxt) or ordr._is_lt_guard(tp, vtxt, ttxt) for tp in tests):
                continue
              if isinstance(val, ast.Call) and dotted(val.func) in ('max', 'min') and any(norm_text(a) == ttxt for a in val.args):
                continue
              if self._is_fresh_base(b, body) or self._is_fresh_list(b, body) or self._just_added(tgt, st, loop):
                continue
              f = self._elem_fields(val, elems, base, temps) | self._elem_fields(tgt, elems, base, temps) | guard_fields(st)
              site.sensitive.append(Sensitive(st, 'store into shared %s' % b, f))
        if under_carried_guard(st) and not isinstance(st, (ast.If, ast.For, ast.While)):
          f = set()
          for node in ordr._own_exprs(st):
            f |= self._elem_fields(node, elems, base, temps)
          if f:
            site.sensitive.append(Sensitive(st, 'executed under a test of carried state', f))
        if isinstance(st, ast.If) and (ordr._loads(st.test) & state_names):
          f = self._elem_fields(st.test, elems, base, temps)
          if f:
            site.sensitive.append(Sensitive(st, 'compared with carried state', f))
      # an object built in this iteration that receives a value computed from carried state couples that state with
      # every element field put into the same object (e.g. (time shift since the previous note, pitch, velocity, duration))
      for fo in sorted(fresh_objs):
        puts = []
        for st in U.walk_stmts(ordr._Body(body)):
          if isinstance(st, ast.Expr) and isinstance(st.value, ast.Call) and isinstance(st.value.func, ast.Attribute) and \
              isinstance(st.value.func.value, ast.Name) and st.value.func.value.id == fo and st.value.func.attr in ordr.ACCUMULATE:
            puts.append(st)
        if any(ordr._loads(p.value) & state_names for p in puts):
          f = set()
          for p_ in puts:
            f |= self._elem_fields(p_.value, elems, base, temps)
          if f:
            site.sensitive.append(Sensitive(puts[0], 'emitted in one object together with a value computed from carried state', f))
    kc = closure(site.key_fields)
    res = {}
    for s in site.sensitive:
      for f in s.fields:
        if f in NOTE_FIELDS and f not in kc:
          res.setdefault(f, []).append(s)
    site.residual = res
    return site

  def _is_fresh_base(self, b, body):
    """b is bound in this iteration to an object created in it (own object of the iteration)."""
    for st in U.walk_stmts(ordr._Body(body)):
      if isinstance(st, ast.Assign) and len(st.targets) == 1 and isinstance(st.targets[0], ast.Name) and st.targets[0].id == b:
        v = st.value
        if isinstance(v, ast.Call) and isinstance(v.func, ast.Attribute) and v.func.attr == 'add':
          return True
        if isinstance(v, ast.Call) and (dotted(v.func) or '').split('.')[-1][:1].isupper():
          return True
    return False

  def _is_fresh_list(self, b, body):
    for st in U.walk_stmts(ordr._Body(body)):
      if isinstance(st, ast.Assign) and len(st.targets) == 1 and isinstance(st.targets[0], ast.Name) and st.targets[0].id == b:
        if isinstance(st.value, (ast.List, ast.Dict, ast.Set, ast.ListComp)) or (isinstance(st.value, ast.Call) and dotted(st.value.func) in ('list', 'dict', 'set')):
          return True
    return False

  def _just_added(self, tgt, st, loop):
    """store into X[-1].<field> after X.extend([...]) / X.append(...) / X.add() earlier in the same iteration: the iteration's own element"""
    cur = tgt
    while isinstance(cur, (ast.Attribute, ast.Subscript)):
      if isinstance(cur, ast.Subscript) and U.const_value(cur.slice) == -1:
        xtxt = norm_text(cur.value)
        for prev in U.walk_stmts(ordr._Body(loop.body)):
          if prev is st:
            break
          if isinstance(prev, ast.Expr) and isinstance(prev.value, ast.Call) and isinstance(prev.value.func, ast.Attribute) and \
              prev.value.func.attr in ('extend', 'append', 'add') and norm_text(prev.value.func.value) == xtxt:
            return True
      cur = cur.value
    return False

  def _block_of(self, st, loop):
    p = U.parent(self.fn, st)
    if p is None:
      return None
    for field in ('body', 'orelse', 'finalbody'):
      v = getattr(p, field, None)
      if isinstance(v, list) and any(x is st for x in v):
        return v
    return None

  def _reads_after(self, loop):
    end = getattr(loop, 'end_lineno', loop.lineno)
    names = set()
    for st in self.stmts:
      if st.lineno > end:
        for node in ordr._own_exprs(st):
          names |= ordr._loads(node)
    return names


def analyse_function(fi):
  ft = FuncTies(fi)
  return [ft.analyse(s) for s in ft.sort_sites()]


def address_only(ctx, fi, site, sens, field):
  """`field` reaches the sensitive store only through the subscript of its target (never the stored value or a guard):
  notes that differ in it write to different cells."""
  st = sens.stmt
  ft = FuncTies(fi)
  for (loop, elems, base) in ft.consumers(site):
    if not any(x is st for x in ast.walk(loop)):
      continue
    elems = set(elems)
    temps = {}
    for _ in range(6):
      for s2 in U.walk_stmts(ordr._Body(loop.body)):
        if isinstance(s2, (ast.Assign, ast.AugAssign)):
          f = ft._elem_fields(s2.value, elems, base, temps)
          tg = s2.targets if isinstance(s2, ast.Assign) else [s2.target]
          for t in tg:
            for e in (t.elts if isinstance(t, (ast.Tuple, ast.List)) else [t]):
              if isinstance(e, ast.Name):
                temps[e.id] = temps.get(e.id, set()) | f
    if not isinstance(st, ast.Assign) or len(st.targets) != 1 or not isinstance(st.targets[0], ast.Subscript):
      return False
    in_value = field in ft._elem_fields(st.value, elems, base, temps)
    in_guard = any(field in ft._elem_fields(t, elems, base, temps) for (t, _p) in U.enclosing_tests(fi.node, st, stop_at=loop))
    in_index = field in ft._elem_fields(st.targets[0].slice, elems, base, temps)
    in_base = field in ft._elem_fields(st.targets[0].value, elems, base, temps)
    return in_index and not in_value and not in_guard and not in_base
  return False
