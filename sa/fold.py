"""§2.3 constant folding of table initialisers.

Compile-time constant propagation restricted to module-level and class-level
initialisers: literals, other folded constants (also across modules),
arithmetic, displays, comprehensions over folded tables, a whitelist of pure
builtins, string formatting, re.escape, protobuf enum values (from the schema).
Function bodies of the repository are never evaluated and no repository
function is ever called: a call to one folds to Unknown."""
import ast
import itertools
import re

from .loader import ModuleInfo, ClassInfo, FuncInfo, AnalysisError, dotted


class Unknown(Exception):
  pass


class EnumVal(int):
  """An int with the protobuf enum value name attached."""

  def __new__(cls, value, name):
    o = int.__new__(cls, value)
    o.name = name
    return o

  def __repr__(self):
    return '%s(%d)' % (self.name, int(self))


class Regex:
  def __init__(self, pattern, flags=0):
    self.pattern = pattern
    self.flags = flags

  def __repr__(self):
    return 'Regex(%r, %r)' % (self.pattern, self.flags)

  def __eq__(self, o):
    return isinstance(o, Regex) and (self.pattern, self.flags) == (o.pattern, o.flags)

  def __hash__(self):
    return hash((self.pattern, self.flags))


class Ref:
  """A statically resolved non-value (module, class, external dotted name)."""

  def __init__(self, target):
    self.target = target


_BUILTINS = {
    'dict': dict, 'list': list, 'tuple': tuple, 'set': set, 'frozenset': frozenset, 'sorted': sorted, 'range': range,
    'len': len, 'zip': zip, 'enumerate': enumerate, 'min': min, 'max': max, 'sum': sum, 'abs': abs, 'str': str,
    'int': int, 'float': float, 'chr': chr, 'ord': ord, 'reversed': reversed, 'bool': bool, 'round': round,
    'divmod': divmod, 'any': any, 'all': all, 'map': None, 'filter': None,
}
_EXT_CALLS = {
    'itertools.product': itertools.product, 'itertools.chain': itertools.chain, 're.escape': re.escape,
    'collections.OrderedDict': dict, 'itertools.permutations': itertools.permutations,
    'itertools.combinations': itertools.combinations, 'fractions.Fraction': None,
}
_STR_METHODS = {'join', 'format', 'lower', 'upper', 'split', 'replace', 'strip', 'startswith', 'endswith', 'title',
                'capitalize', 'lstrip', 'rstrip', 'zfill', 'ljust', 'rjust'}
_DICT_METHODS = {'keys', 'values', 'items', 'get', 'copy'}
_LIST_METHODS = {'index', 'count', 'copy'}
_RE_FLAGS = {'re.IGNORECASE': re.IGNORECASE, 're.I': re.I, 're.VERBOSE': re.VERBOSE, 're.X': re.X, 're.MULTILINE': re.M,
             're.M': re.M, 're.DOTALL': re.S, 're.S': re.S, 're.UNICODE': re.U, 're.U': re.U}


class Folder:
  def __init__(self, program, schema=None):
    self.P = program
    self.S = schema
    self._memo = {}
    self._class_memo = {}
    self._busy = set()

  # ---------------------------------------------------------------- entry points
  def module_const(self, modname, name):
    mi = self.P.module(modname) if isinstance(modname, str) else modname
    key = (mi.name, name)
    if key in self._memo:
      v = self._memo[key]
      if isinstance(v, Unknown):
        raise v
      return v
    if key in self._busy:
      raise Unknown('cyclic constant %s.%s' % key)
    self._busy.add(key)
    try:
      vals = mi.assigns.get(name)
      if not vals:
        raise Unknown('%s.%s is not a module-level assignment' % (mi.name, name))
      # the last top-level assignment wins (Python semantics); all earlier ones must fold too
      v = self.expr(mi, vals[-1], {})
      self._memo[key] = v
      return v
    except Unknown as e:
      self._memo[key] = e
      raise
    finally:
      self._busy.discard(key)

  def class_consts(self, ci):
    """Execute the simple statements of a class body; returns name -> value
    (names whose initialiser cannot be folded are absent)."""
    if ci.fq in self._class_memo:
      return self._class_memo[ci.fq]
    env = {}
    self._class_memo[ci.fq] = env
    for st in ci.node.body:
      if isinstance(st, (ast.FunctionDef, ast.AsyncFunctionDef, ast.ClassDef)):
        continue
      if isinstance(st, ast.Expr) and isinstance(st.value, ast.Constant):
        continue
      try:
        self.stmt(ci.module, st, env)
      except Unknown:
        for n in ast.walk(st):
          if isinstance(n, ast.Name) and isinstance(n.ctx, ast.Store):
            env.pop(n.id, None)
    return env

  def class_const(self, ci, name):
    env = self.class_consts(ci)
    if name not in env:
      raise Unknown('%s.%s cannot be folded' % (ci.fq, name))
    return env[name]

  # ---------------------------------------------------------------- statements (class bodies)
  def stmt(self, mi, st, env):
    if isinstance(st, ast.Assign):
      v = self.expr(mi, st.value, env)
      for t in st.targets:
        self.assign(mi, t, v, env)
    elif isinstance(st, ast.AugAssign):
      cur = self.expr(mi, st.target, env)
      v = self.expr(mi, st.value, env)
      self.assign(mi, st.target, self.binop(st.op, cur, v), env)
    elif isinstance(st, ast.For):
      it = self.expr(mi, st.iter, env)
      for x in it:
        self.assign(mi, st.target, x, env)
        for s in st.body:
          self.stmt(mi, s, env)
    elif isinstance(st, ast.If):
      body = st.body if self.expr(mi, st.test, env) else st.orelse
      for s in body:
        self.stmt(mi, s, env)
    elif isinstance(st, ast.Expr):
      if isinstance(st.value, ast.Call) and isinstance(st.value.func, ast.Attribute) and st.value.func.attr in ('append', 'extend', 'update', 'add', 'setdefault'):
        recv = self.expr(mi, st.value.func.value, env)
        args = [self.expr(mi, a, env) for a in st.value.args]
        if not isinstance(recv, (list, dict, set)):
          raise Unknown('mutating call on non-container')
        getattr(recv, st.value.func.attr)(*args)
      else:
        self.expr(mi, st.value, env)
    elif isinstance(st, ast.Pass):
      pass
    elif isinstance(st, ast.Delete):
      for t in st.targets:
        if isinstance(t, ast.Name):
          env.pop(t.id, None)
        else:
          raise Unknown('del')
    else:
      raise Unknown('statement %s' % type(st).__name__)

  def assign(self, mi, t, v, env):
    if isinstance(t, ast.Name):
      env[t.id] = v
    elif isinstance(t, (ast.Tuple, ast.List)):
      vs = list(v)
      if len(vs) != len(t.elts):
        raise Unknown('unpack')
      for e, x in zip(t.elts, vs):
        self.assign(mi, e, x, env)
    elif isinstance(t, ast.Subscript):
      base = self.expr(mi, t.value, env)
      k = self.expr(mi, t.slice, env)
      if not isinstance(base, (dict, list)):
        raise Unknown('subscript store')
      base[k] = v
    else:
      raise Unknown('assign target')

  # ---------------------------------------------------------------- expressions
  def expr(self, mi, node, env):
    m = getattr(self, 'e_' + type(node).__name__, None)
    if m is None:
      raise Unknown('expression %s' % type(node).__name__)
    return m(mi, node, env)

  def e_Constant(self, mi, node, env):
    return node.value

  def e_Name(self, mi, node, env):
    if node.id in env:
      return env[node.id]
    if node.id in ('True', 'False', 'None'):
      return {'True': True, 'False': False, 'None': None}[node.id]
    r = self.P.resolve_name(mi, node.id)
    if r is None:
      if node.id in _BUILTINS:
        return Ref(('builtin', node.id))
      raise Unknown('name %s' % node.id)
    if isinstance(r, tuple) and r[0] == 'const':
      return self.module_const(r[1], r[2])
    return Ref(r)

  def e_Attribute(self, mi, node, env):
    d = dotted(node)
    if d in _RE_FLAGS:
      return _RE_FLAGS[d]
    base = self.expr(mi, node.value, env)
    if isinstance(base, Ref):
      t = base.target
      if isinstance(t, ModuleInfo):
        r = self.P.resolve_name(t, node.attr)
        if isinstance(r, tuple) and r[0] == 'const':
          return self.module_const(r[1], r[2])
        if r is None:
          raise Unknown('attribute %s of module %s' % (node.attr, t.name))
        return Ref(r)
      if isinstance(t, ClassInfo):
        for c in self.P.mro(t):
          cc = self.class_consts(c)
          if node.attr in cc:
            return cc[node.attr]
        if node.attr in t.nested:
          return Ref(t.nested[node.attr])
        m = self.P.lookup_method(t, node.attr)
        if m is not None:
          return Ref(m)
        raise Unknown('class attribute %s.%s' % (t.fq, node.attr))
      if isinstance(t, tuple) and t[0] == 'ext':
        full = t[1] + '.' + node.attr
        if full.startswith('note_seq.protobuf.music_pb2.') and self.S is not None:
          name = full[len('note_seq.protobuf.music_pb2.'):]
          v = self.S.enum_value(name)
          if v is not None:
            return EnumVal(v, name)
        return Ref(('ext', full))
      raise Unknown('attribute of %r' % (t,))
    if isinstance(base, Regex) and node.attr == 'pattern':
      return base.pattern
    raise Unknown('attribute %s of a value' % node.attr)

  def e_UnaryOp(self, mi, node, env):
    v = self.expr(mi, node.operand, env)
    if isinstance(node.op, ast.USub):
      return -v
    if isinstance(node.op, ast.UAdd):
      return +v
    if isinstance(node.op, ast.Not):
      return not v
    if isinstance(node.op, ast.Invert):
      return ~v
    raise Unknown('unary')

  def binop(self, op, a, b):
    if isinstance(a, Ref) or isinstance(b, Ref):
      raise Unknown('arithmetic on a reference')
    try:
      if isinstance(op, ast.Add):
        return a + b
      if isinstance(op, ast.Sub):
        return a - b
      if isinstance(op, ast.Mult):
        if isinstance(a, (str, list, tuple)) and isinstance(b, int) and b > 10000:
          raise Unknown('huge repetition')
        return a * b
      if isinstance(op, ast.Div):
        return a / b
      if isinstance(op, ast.FloorDiv):
        return a // b
      if isinstance(op, ast.Mod):
        return a % b
      if isinstance(op, ast.Pow):
        if isinstance(b, (int, float)) and abs(b) > 64:
          raise Unknown('huge power')
        return a ** b
      if isinstance(op, ast.BitOr):
        return a | b
      if isinstance(op, ast.BitAnd):
        return a & b
      if isinstance(op, ast.BitXor):
        return a ^ b
      if isinstance(op, ast.LShift):
        return a << b
      if isinstance(op, ast.RShift):
        return a >> b
    except Unknown:
      raise
    except Exception as e:
      raise Unknown('arithmetic failed: %s' % e)
    raise Unknown('operator')

  def e_BinOp(self, mi, node, env):
    return self.binop(node.op, self.expr(mi, node.left, env), self.expr(mi, node.right, env))

  def e_BoolOp(self, mi, node, env):
    v = None
    for x in node.values:
      v = self.expr(mi, x, env)
      if isinstance(node.op, ast.And) and not v:
        return v
      if isinstance(node.op, ast.Or) and v:
        return v
    return v

  def e_Compare(self, mi, node, env):
    l = self.expr(mi, node.left, env)
    for op, r in zip(node.ops, node.comparators):
      r = self.expr(mi, r, env)
      try:
        ok = {ast.Eq: lambda: l == r, ast.NotEq: lambda: l != r, ast.Lt: lambda: l < r, ast.LtE: lambda: l <= r,
              ast.Gt: lambda: l > r, ast.GtE: lambda: l >= r, ast.In: lambda: l in r, ast.NotIn: lambda: l not in r,
              ast.Is: lambda: l is r, ast.IsNot: lambda: l is not r}[type(op)]()
      except Exception as e:
        raise Unknown('compare failed: %s' % e)
      if not ok:
        return False
      l = r
    return True

  def e_IfExp(self, mi, node, env):
    return self.expr(mi, node.body if self.expr(mi, node.test, env) else node.orelse, env)

  def _elts(self, mi, elts, env):
    out = []
    for e in elts:
      if isinstance(e, ast.Starred):
        out.extend(self.expr(mi, e.value, env))
      else:
        out.append(self.expr(mi, e, env))
    return out

  def e_Tuple(self, mi, node, env):
    return tuple(self._elts(mi, node.elts, env))

  def e_List(self, mi, node, env):
    return self._elts(mi, node.elts, env)

  def e_Set(self, mi, node, env):
    return set(self._elts(mi, node.elts, env))

  def e_Dict(self, mi, node, env):
    d = {}
    for k, v in zip(node.keys, node.values):
      if k is None:
        d.update(self.expr(mi, v, env))
      else:
        d[self.expr(mi, k, env)] = self.expr(mi, v, env)
    return d

  def e_Subscript(self, mi, node, env):
    b = self.expr(mi, node.value, env)
    if isinstance(b, Ref):
      raise Unknown('subscript of reference')
    if isinstance(node.slice, ast.Slice):
      lo = self.expr(mi, node.slice.lower, env) if node.slice.lower else None
      hi = self.expr(mi, node.slice.upper, env) if node.slice.upper else None
      st = self.expr(mi, node.slice.step, env) if node.slice.step else None
      return b[lo:hi:st]
    k = self.expr(mi, node.slice, env)
    try:
      return b[k]
    except Exception as e:
      raise Unknown('subscript failed: %s' % e)

  def _comp(self, mi, gens, env, emit):
    def rec(i, env):
      if i == len(gens):
        emit(env)
        return
      g = gens[i]
      it = self.expr(mi, g.iter, env)
      if isinstance(it, Ref):
        raise Unknown('iterate reference')
      n = 0
      for x in it:
        n += 1
        if n > 200000:
          raise Unknown('comprehension too large')
        e2 = dict(env)
        self.assign(mi, g.target, x, e2)
        if all(self.expr(mi, c, e2) for c in g.ifs):
          rec(i + 1, e2)
    rec(0, dict(env))

  def e_ListComp(self, mi, node, env):
    out = []
    self._comp(mi, node.generators, env, lambda e: out.append(self.expr(mi, node.elt, e)))
    return out

  e_GeneratorExp = e_ListComp

  def e_SetComp(self, mi, node, env):
    out = set()
    self._comp(mi, node.generators, env, lambda e: out.add(self.expr(mi, node.elt, e)))
    return out

  def e_DictComp(self, mi, node, env):
    out = {}

    def emit(e):
      out[self.expr(mi, node.key, e)] = self.expr(mi, node.value, e)
    self._comp(mi, node.generators, env, emit)
    return out

  def e_JoinedStr(self, mi, node, env):
    parts = []
    for v in node.values:
      if isinstance(v, ast.Constant):
        parts.append(str(v.value))
      elif isinstance(v, ast.FormattedValue) and v.format_spec is None and v.conversion == -1:
        parts.append(str(self.expr(mi, v.value, env)))
      else:
        raise Unknown('f-string')
    return ''.join(parts)

  def e_Lambda(self, mi, node, env):
    raise Unknown('lambda')

  def e_Call(self, mi, node, env):
    f = node.func
    args = self._elts(mi, node.args, env) if not any(isinstance(a, ast.Lambda) for a in node.args) else None
    kwargs = {}
    for k in node.keywords:
      if k.arg is None:
        raise Unknown('**kwargs')
      if isinstance(k.value, ast.Lambda):
        kwargs[k.arg] = k.value
      else:
        kwargs[k.arg] = self.expr(mi, k.value, env)
    if args is None:
      raise Unknown('lambda argument')
    d = dotted(f)
    if isinstance(f, ast.Attribute):
      # method on a folded value?
      try:
        base = self.expr(mi, f.value, env)
      except Unknown:
        base = None
      if base is not None and not isinstance(base, Ref):
        return self._method(base, f.attr, args, kwargs)
    target = self.expr(mi, f, env)
    if not isinstance(target, Ref):
      raise Unknown('call of a value')
    t = target.target
    if isinstance(t, tuple) and t[0] == 'builtin':
      fn = _BUILTINS.get(t[1])
      if fn is None:
        raise Unknown('builtin %s' % t[1])
      if 'key' in kwargs:
        kwargs['key'] = self._key_fn(mi, kwargs['key'], env)
      try:
        v = fn(*args, **kwargs)
      except Unknown:
        raise
      except Exception as e:
        raise Unknown('%s failed: %s' % (t[1], e))
      if t[1] in ('zip', 'enumerate', 'reversed', 'range', 'map', 'filter'):
        v = list(v)
      return v
    if isinstance(t, tuple) and t[0] == 'ext':
      name = t[1]
      if name == 're.compile':
        return Regex(args[0], args[1] if len(args) > 1 else kwargs.get('flags', 0))
      if name in ('collections.namedtuple',):
        raise Unknown('namedtuple')
      fn = _EXT_CALLS.get(name)
      if fn is None:
        raise Unknown('external call %s' % name)
      try:
        v = fn(*args, **kwargs)
      except Exception as e:
        raise Unknown('%s failed: %s' % (name, e))
      if name.startswith('itertools.'):
        v = list(v)
      return v
    raise Unknown('call of repository code %r (never evaluated)' % (t,))

  def _key_fn(self, mi, lam, env):
    if not isinstance(lam, ast.Lambda):
      raise Unknown('key is not a lambda')
    params = [a.arg for a in lam.args.args]

    def f(*xs):
      e = dict(env)
      e.update(zip(params, xs))
      return self.expr(mi, lam.body, e)
    return f

  def _method(self, base, name, args, kwargs):
    try:
      if isinstance(base, str) and name in _STR_METHODS:
        return getattr(base, name)(*args, **kwargs)
      if isinstance(base, dict) and name in _DICT_METHODS:
        v = getattr(base, name)(*args)
        return list(v) if name in ('keys', 'values', 'items') else v
      if isinstance(base, (list, tuple)) and name in _LIST_METHODS:
        return getattr(base, name)(*args)
      if isinstance(base, (set, frozenset)) and name in ('union', 'intersection', 'difference', 'copy'):
        return getattr(base, name)(*args)
    except Exception as e:
      raise Unknown('method %s failed: %s' % (name, e))
    raise Unknown('method %s on %s' % (name, type(base).__name__))


def need(ctx_folder_call, what):
  """Helper for rule modules: fold or raise AnalysisError (exit 2)."""
  try:
    return ctx_folder_call()
  except Unknown as e:
    raise AnalysisError('cannot fold %s: %s' % (what, e))
