"""F32 (C05): a transposing part (chromatic -2, a B-flat instrument) written in B major (5 sharps).  The sounding key is A major
(3 sharps); the parser computed 5 + 10 = 15 and folded it with `%= -6` to -3 (E-flat major)."""
import os, sys, tempfile
from note_seq import musicxml_reader
bad = 0
for fifths, chromatic in ((5, -2), (2, -2), (4, -3), (6, -1), (3, -2), (0, -2), (-3, -2)):
  xml = ('<?xml version="1.0" encoding="UTF-8"?><score-partwise version="3.0"><part-list><score-part id="P1"><part-name>A</part-name></score-part></part-list>'
         '<part id="P1"><measure number="1"><attributes><divisions>1</divisions><key><fifths>%d</fifths></key><time><beats>4</beats><beat-type>4</beat-type></time>'
         '<transpose><diatonic>0</diatonic><chromatic>%d</chromatic></transpose></attributes>'
         '<note><pitch><step>C</step><octave>4</octave></pitch><duration>4</duration><voice>1</voice><type>whole</type></note></measure></part></score-partwise>') % (fifths, chromatic)
  d = tempfile.mkdtemp(); p = os.path.join(d, 's.xml'); open(p, 'w').write(xml)
  ns = musicxml_reader.musicxml_file_to_sequence_proto(p)
  got = ns.key_signatures[0].key          # pitch class of the tonic
  want = (7 * fifths + chromatic) % 12
  print('fifths %d transposed by %d: tonic pitch class %d, expected %d' % (fifths, chromatic, got, want))
  bad += got != want
print('FAIL' if bad else 'PASS')
sys.exit(1 if bad else 0)
