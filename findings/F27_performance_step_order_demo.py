"""F27 (recorded, not repaired): a Performance extracted from two overlapping notes of one pitch plus another pitch ending on the
same step is not a fixed point of to_sequence -> quantize -> extract: the NOTE_OFF events of that step come back in another order.
Notes (pitch, start step, end step): (60, 0, 3), (60, 1, 2), (62, 0, 2).  Exit 1 if the event sequences differ."""
import sys
from note_seq import performance_lib, sequences_lib
from note_seq.protobuf import music_pb2
ns = music_pb2.NoteSequence(); ns.ticks_per_quarter = 220
for p, s, e in ((60, 0, 3), (60, 1, 2), (62, 0, 2)):
  ns.notes.add(pitch=p, velocity=80, start_time=s / 100.0, end_time=e / 100.0)
ns.total_time = 0.03
q = sequences_lib.quantize_note_sequence_absolute(ns, 100)
perf = performance_lib.Performance(quantized_sequence=q)
ev = [(e.event_type, e.event_value) for e in perf]
q2 = sequences_lib.quantize_note_sequence_absolute(perf.to_sequence(), 100)
ev2 = [(e.event_type, e.event_value) for e in performance_lib.Performance(quantized_sequence=q2)]
print('extracted      :', ev)
print('after roundtrip:', ev2)
print('SAME' if ev == ev2 else 'DIFFERENT')
sys.exit(0 if ev == ev2 else 1)
