"""F26: PianorollSequence extraction with split_repeats (the default) cleared row `note_start_offset - 1` for every note; for a note
starting exactly on start_step that index is -1, i.e. the LAST step of the roll.  With two notes of one pitch starting on
start_step, the first held to the end of the sequence, the second one's "gap" erased the pitch from the final step although it is
sounding there.  Exit 1 if the pitch is missing."""
import sys
from note_seq import pianoroll_lib, sequences_lib
from note_seq.protobuf import music_pb2
ns = music_pb2.NoteSequence(); ns.tempos.add(qpm=120); ns.ticks_per_quarter = 220
for s, e in ((0.0, 2.0), (0.0, 0.5)):
  ns.notes.add(pitch=60, velocity=100, start_time=s, end_time=e)
ns.total_time = 2.0
q = sequences_lib.quantize_note_sequence(ns, 4)
roll = list(pianoroll_lib.PianorollSequence(quantized_sequence=q, min_pitch=60, max_pitch=61))
sounding_last = any(n.quantized_start_step <= q.total_quantized_steps - 1 < n.quantized_end_step for n in q.notes)
ok = (len(roll[-1]) == 1) == sounding_last
print('last step of the roll:', roll[-1], '- pitch 60 is sounding there:', sounding_last, 'OK' if ok else 'LOST')
sys.exit(0 if ok else 1)
