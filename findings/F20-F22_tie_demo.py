import sys
from note_seq.protobuf import music_pb2
from note_seq import performance_lib, sequences_lib, melodies_lib
from collections import Counter
import numpy as np
def mk(order, notes):
    ns=music_pb2.NoteSequence(); ns.tempos.add(qpm=120); ns.ticks_per_quarter=220
    for k in order:
        p,v,s,e=notes[k]; ns.notes.add(pitch=p,velocity=v,start_time=s,end_time=e)
    ns.total_time=max(n.end_time for n in ns.notes)
    return ns
bad=0
notes={'A':(60,80,0,.5),'B':(60,80,0,1.0),'C':(62,80,1.5,2.0)}
out=[]
for order in ('ABC','BAC'):
    q=sequences_lib.quantize_note_sequence(mk(order,notes),4)
    m=melodies_lib.Melody(); m.from_quantized_sequence(q, ignore_polyphonic_notes=True)
    out.append(list(m))
print('melody equal', out[0]==out[1]); bad+= out[0]!=out[1]
notes={'D':(55,100,0,.2),'A':(60,50,.5,1.0),'B':(60,100,.5,1.2),'C':(62,100,1.5,2.0)}
out=[];out2=[]
for order in ('DABC','DBAC','BDAC'):
    q=sequences_lib.quantize_note_sequence_absolute(mk(order,notes),100)
    p=performance_lib.NotePerformance(q,num_velocity_bins=32)
    out.append(Counter(tuple((e.event_type,e.event_value) for e in t) for t in p))
    p=performance_lib.Performance(quantized_sequence=q,num_velocity_bins=32)
    out2.append(Counter((e.event_type,e.event_value) for e in p))
print('noteperf equal', out[0]==out[1]==out[2]); bad+= not (out[0]==out[1]==out[2])
print('perf equal', out2[0]==out2[1]==out2[2]); bad+= not (out2[0]==out2[1]==out2[2])
out=[]
for order in ('DABC','DBAC'):
    r=sequences_lib.sequence_to_pianoroll(mk(order,notes),frames_per_second=10,min_pitch=21,max_pitch=108)
    out.append(r)
eq=all(np.array_equal(getattr(out[0],f),getattr(out[1],f)) for f in out[0]._fields)
print('roll equal', eq); bad+= not eq
sys.exit(1 if bad else 0)
