"""F30 (C05): a two-part score whose first part changes the tempo (120 -> 60 qpm at bar 2); the second part carries no tempo
marks of its own.  Each part restarts at time zero, but the parser keeps the *last* tempo of the previous part as the running
tempo: the second part's first bar is timed at 60 qpm although 120 qpm is in force there."""
import os, sys, tempfile
from note_seq import musicxml_reader

def part(pid, marks):
  out = ['<part id="%s">' % pid]
  for m in (1, 2):
    out.append('<measure number="%d">' % m)
    if m == 1:
      out.append('<attributes><divisions>1</divisions><key><fifths>0</fifths></key><time><beats>4</beats><beat-type>4</beat-type></time></attributes>')
    if m in marks:
      out.append('<direction><sound tempo="%d"/></direction>' % marks[m])
    for _ in range(4):
      out.append('<note><pitch><step>C</step><octave>4</octave></pitch><duration>1</duration><voice>1</voice><type>quarter</type></note>')
    out.append('</measure>')
  out.append('</part>')
  return ''.join(out)

xml = ('<?xml version="1.0" encoding="UTF-8"?><score-partwise version="3.0"><part-list>'
       '<score-part id="P1"><part-name>A</part-name></score-part><score-part id="P2"><part-name>B</part-name></score-part></part-list>'
       + part('P1', {1: 120, 2: 60}) + part('P2', {}) + '</score-partwise>')
d = tempfile.mkdtemp()
p = os.path.join(d, 's.xml')
open(p, 'w').write(xml)
ns = musicxml_reader.musicxml_file_to_sequence_proto(p)
by_part = {}
for n in ns.notes:
  by_part.setdefault(n.part, []).append((round(n.start_time, 6), round(n.end_time, 6)))
print('tempos', [(t.time, t.qpm) for t in ns.tempos])
for k in sorted(by_part):
  print('part', k, sorted(by_part[k]))
want = [(0.0, 0.5), (0.5, 1.0), (1.0, 1.5), (1.5, 2.0), (2.0, 3.0), (3.0, 4.0), (4.0, 5.0), (5.0, 6.0)]
bad = [k for k in by_part if sorted(by_part[k]) != want]
print('FAIL: part(s) %s not timed at the tempo in force' % bad if bad else 'PASS')
sys.exit(1 if bad else 0)
