"""F31 (C05): one part, one 4/4 bar with two voices joined by <backup>, and a tempo change (120 -> 60 qpm) after the first
beat of voice 1.  <backup> is converted to seconds at the tempo that is current when it is read, so backing up over the tempo
mark does not return the cursor to the bar line: voice 2 starts at a negative time instead of 0.0."""
import os, sys, tempfile
from note_seq import musicxml_reader

def note(voice):
  return '<note><pitch><step>C</step><octave>4</octave></pitch><duration>1</duration><voice>%d</voice><type>quarter</type></note>' % voice

xml = ('<?xml version="1.0" encoding="UTF-8"?><score-partwise version="3.0"><part-list>'
       '<score-part id="P1"><part-name>A</part-name></score-part></part-list><part id="P1"><measure number="1">'
       '<attributes><divisions>1</divisions><key><fifths>0</fifths></key><time><beats>4</beats><beat-type>4</beat-type></time></attributes>'
       '<direction><sound tempo="120"/></direction>' + note(1) + '<direction><sound tempo="60"/></direction>' + note(1) * 3 +
       '<backup><duration>4</duration></backup>' + note(2) * 4 + '</measure></part></score-partwise>')
d = tempfile.mkdtemp()
p = os.path.join(d, 's.xml')
open(p, 'w').write(xml)
ns = musicxml_reader.musicxml_file_to_sequence_proto(p)
v = {}
for n in ns.notes:
  v.setdefault(n.voice, []).append((round(n.start_time, 6), round(n.end_time, 6)))
for k in sorted(v):
  print('voice', k, sorted(v[k]))
want1 = [(0.0, 0.5), (0.5, 1.5), (1.5, 2.5), (2.5, 3.5)]
ok = sorted(v.get(1, [])) == want1 and sorted(v.get(2, [])) == want1
print('PASS' if ok else 'FAIL: voice 2 should sound together with voice 1 (%s)' % want1)
sys.exit(0 if ok else 1)
