import sys
from note_seq import performance_lib, sequences_lib
from note_seq.protobuf import music_pb2
bad = 0
# (a) two notes inside one step whose raw onsets differ: the later one has the lower pitch
ns = music_pb2.NoteSequence(); ns.ticks_per_quarter = 220
ns.notes.add(pitch=62, velocity=80, start_time=0.100, end_time=0.20)
ns.notes.add(pitch=60, velocity=80, start_time=0.101, end_time=0.20)
ns.total_time = 0.2
q = sequences_lib.quantize_note_sequence_absolute(ns, 100)
for name, make in (('Performance', lambda s: performance_lib.Performance(quantized_sequence=s)),
                   ('NotePerformance', lambda s: performance_lib.NotePerformance(s, num_velocity_bins=16))):
  p1 = make(q)
  ev1 = [tuple((x.event_type, x.event_value) for x in e) if isinstance(e, tuple) else (e.event_type, e.event_value) for e in p1]
  q2 = sequences_lib.quantize_note_sequence_absolute(p1.to_sequence(), 100)
  p2 = make(q2)
  ev2 = [tuple((x.event_type, x.event_value) for x in e) if isinstance(e, tuple) else (e.event_type, e.event_value) for e in p2]
  same = ev1 == ev2
  print(name, 'sub-step onsets:', 'SAME' if same else 'DIFFERENT'); 
  if not same: print('  extracted      :', ev1); print('  after roundtrip:', ev2); bad += 1
# (b) NotePerformance: same onset and pitch, velocities in one bin, the louder note is the shorter one
ns = music_pb2.NoteSequence(); ns.ticks_per_quarter = 220
ns.notes.add(pitch=60, velocity=65, start_time=0.10, end_time=0.50)
ns.notes.add(pitch=60, velocity=70, start_time=0.10, end_time=0.30)
ns.total_time = 0.5
q = sequences_lib.quantize_note_sequence_absolute(ns, 100)
p1 = performance_lib.NotePerformance(q, num_velocity_bins=8)
ev1 = [tuple((x.event_type, x.event_value) for x in e) for e in p1]
q2 = sequences_lib.quantize_note_sequence_absolute(p1.to_sequence(), 100)
ev2 = [tuple((x.event_type, x.event_value) for x in e) for e in performance_lib.NotePerformance(q2, num_velocity_bins=8)]
print('NotePerformance same bin:', 'SAME' if ev1 == ev2 else 'DIFFERENT')
if ev1 != ev2: print('  extracted      :', ev1); print('  after roundtrip:', ev2); bad += 1
sys.exit(1 if bad else 0)
