import sys
from note_seq.protobuf import music_pb2
from note_seq import sequences_lib
bad = 0
# merge: the longer sequence first
a = music_pb2.NoteSequence(); a.notes.add(pitch=60, velocity=80, start_time=0, end_time=5); a.total_time = 5
b = music_pb2.NoteSequence(); b.notes.add(pitch=62, velocity=80, start_time=0, end_time=1); b.total_time = 1
m = sequences_lib.merge_sequences([a, b])
ok = all(n.end_time <= m.total_time for n in m.notes)
print('merge_sequences total_time', m.total_time, 'max note end', max(n.end_time for n in m.notes), 'OK' if ok else 'NOT COVERED'); bad += not ok
# sustain: a drum note ends after the last pitched/pedal event while a pedal is still down
s = music_pb2.NoteSequence()
s.notes.add(pitch=60, velocity=80, start_time=0, end_time=1)
s.notes.add(pitch=36, velocity=80, start_time=0.5, end_time=3, is_drum=True)
s.control_changes.add(time=0.5, control_number=64, control_value=127)
s.total_time = 3
r = sequences_lib.apply_sustain_control_changes(s)
ok = all(n.end_time <= r.total_time for n in r.notes)
print('apply_sustain total_time', r.total_time, 'max note end', max(n.end_time for n in r.notes), 'OK' if ok else 'NOT COVERED'); bad += not ok
sys.exit(1 if bad else 0)
