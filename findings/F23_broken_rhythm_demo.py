import sys
from note_seq import abc_parser
tune = "X:1\nT:t\nM:4/4\nL:1/4\nQ:1/4=60\nK:C\nA>B A>>B A>>>B A<<B|\n"
tunes, exc = abc_parser.parse_abc_tunebook(tune)
ns = tunes[1]
got = [(round(n.start_time, 6), round(n.end_time, 6)) for n in ns.notes]
# ABC 2.1 4.4: > dotted/halved, >> double dotted/quartered, >>> triple dotted/eighth; << mirrored
want = [(0, 1.5), (1.5, 2), (2, 3.75), (3.75, 4), (4, 5.875), (5.875, 6), (6, 6.25), (6.25, 8)]
print('got ', got); print('want', want)
ok = got == [(float(a), float(b)) for a, b in want]
print('PASS' if ok else 'FAIL'); sys.exit(0 if ok else 1)
