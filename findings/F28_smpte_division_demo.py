"""F28 (C16): a MIDI file with an SMPTE time division (high bit of the header's division field set) and a tempo change.
mido unpacks the division as a signed short, PrettyMIDI stores it as a negative resolution, and before the repair
(/repo f9484c3) midi_to_note_sequence returned a NoteSequence with a negative ticks_per_quarter and negative tempo
times instead of raising MIDIConversionError.  Triage aid, not a check: run with /venv/bin/python."""
import struct
import sys

from note_seq import midi_io

trk = b''.join([b'\x00\xff\x51\x03\x07\xa1\x20', b'\x60\xff\x51\x03\x03\xd0\x90', b'\x00\xff\x2f\x00'])
bad = 0
for div in (0xE728, 0x8001, 0xFFFF):
  data = b'MThd' + struct.pack('>IHHH', 6, 0, 1, div) + b'MTrk' + struct.pack('>I', len(trk)) + trk
  try:
    ns = midi_io.midi_to_note_sequence(data)
  except midi_io.MIDIConversionError as e:
    print(hex(div), 'rejected:', e)
    continue
  times = [t.time for t in ns.tempos]
  print(hex(div), 'ticks_per_quarter', ns.ticks_per_quarter, 'tempo times', times)
  if ns.ticks_per_quarter <= 0 or any(t < 0 for t in times):
    bad += 1
print('FAIL' if bad else 'PASS')
sys.exit(1 if bad else 0)
