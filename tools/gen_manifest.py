#!/venv/bin/python
"""Regenerates /verif/MANIFEST.json from the rule modules present under rules/
(each provides PROPERTY, LEVEL_TEXT, LEVEL_NOTE, TECHNIQUE, DESIGN_REF)."""
import importlib
import json
import os
import sys

VERIF = os.path.dirname(os.path.dirname(os.path.abspath(__file__)))
sys.path.insert(0, VERIF)
sys.dont_write_bytecode = True

NOT_APPLICABLE = {
    'C19': ('Viterbi optimality compares an attained log-likelihood with the optimum over all state paths of numeric '
            'matrices built at run time: a property of computed values; the only structural facts in reach would be a '
            'source-shape match that fires on an equivalent vectorisation (DESIGN.md section 5).'),
}
PENDING = 'check not built yet (see DESIGN.md section 8 for the build order)'


def main():
  props = [json.loads(l)['id'] for l in open(os.path.join(VERIF, 'properties.jsonl'))]
  checks = []
  na = []
  for pid in props:
    path = os.path.join(VERIF, 'rules', pid + '.py')
    if pid in NOT_APPLICABLE:
      na.append({'property_id': pid, 'reason': NOT_APPLICABLE[pid]})
      continue
    if not os.path.exists(path):
      na.append({'property_id': pid, 'reason': PENDING})
      continue
    m = importlib.import_module('rules.' + pid)
    checks.append({
        'property_id': pid,
        'quick_cmd': './check %s --tier quick' % pid,
        'thorough_cmd': './check %s --tier thorough' % pid,
        'evidence_file': 'evidence/%s.json' % pid,
        'replay_cmd_template': './check replay {path}',
        'engine': 'sa',
        'level_claimed': {
            'category': 'other',
            'text': m.LEVEL_TEXT,
            'design_ref': getattr(m, 'DESIGN_REF', 'DESIGN.md section 4, ' + pid),
        },
        'level_note': m.LEVEL_NOTE,
        'technique': m.TECHNIQUE,
    })
  man = {
      'version': 1,
      'setup_cmd': 'true',
      'hooks': {
          'guard': 'NOTE_SEQ_VERIF',
          'enable': 'no hooks exist: every check is a static analysis that reads /repo as text (ast); nothing is built or executed',
          'baseline_off_cmd': 'cd /repo && /venv/bin/python -m pytest -ra -q -p no:cacheprovider --timeout=900 --continue-on-collection-errors',
          'source_commits': [],
          'add_only': True,
      },
      'engines': [{
          'name': 'sa',
          'path': 'sa/',
          'serves_properties': [c['property_id'] for c in checks],
          'kind_free_text': ('repository-specific static analysis over Python ASTs: points-to/ownership abstract interpreter, '
                             'iteration-order classifier, exception-escape analysis, constant-table folding with a music-theory '
                             'oracle, normal-form sibling agreement, class-invariant and interface checks; standard library only'),
      }],
      'checks': checks,
      'notes': ('Static analysis only (DESIGN.md). quick = the rules on the current tree (1-3 s). thorough = the same rules plus the '
                'two-way self-test of the checker on in-memory source variants (breaking variants must be reported, equivalent '
                'variants must stay silent); exit 2 + ANALYSIS-ERROR when the machinery cannot decide. Findings recorded in '
                'known_findings.json are printed as KNOWN-FINDING lines.'),
      'not_applicable': na,
  }
  with open(os.path.join(VERIF, 'MANIFEST.json'), 'w') as f:
    json.dump(man, f, indent=1)
    f.write('\n')
  print('MANIFEST.json: %d checks, %d not_applicable' % (len(checks), len(na)))


if __name__ == '__main__':
  main()
