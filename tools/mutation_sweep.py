#!/venv/bin/python
"""tools/mutation_sweep.py <property> [--max N] [--jobs J]

Maintenance / triage tool (NOT a check, and not static: it runs library code).  It measures the *breaking* direction on
changes nobody wrote by hand:

  1. small mutants are generated in the functions that own a rule instance of the property: a comparison boundary moved
     (< <-> <=, > <-> >=), an integer constant +-1, min <-> max, `and` <-> `or`;
  2. each mutant is run against the property demonstrations that the seeding sub-agents delivered with their harmless
     refactorings (harmless/<P>_h*/demo.py: they print PASS on a library that satisfies the property) in a scratch worktree
     of /repo under /tmp; a mutant that makes a demonstration fail breaks the property *observably*;
  3. such a mutant is kept only if the pinned test suite still passes with it (the kind of change the brief asks about);
  4. the registered check of the property is run on it in memory (overlay): reported / cannot decide / silent.

Writes mutation/<P>.json.  Scratch worktrees are removed at the end."""
import ast
import concurrent.futures
import json
import os
import shutil
import subprocess
import sys
import tempfile
import xml.etree.ElementTree as ET

VERIF = os.path.dirname(os.path.dirname(os.path.abspath(__file__)))
sys.path.insert(0, VERIF)
PY = '/venv/bin/python'
REPO = '/repo'


def owners(prop):
  from sa import framework
  ctx = framework.run_rules(prop, 'quick')
  mod = framework.load_rules(prop)
  fs = set((o.module, o.function) for o in ctx.obligations if o.function and o.function != '<module>' and '<locals>' not in o.function)
  fs |= set(getattr(mod, 'RENAME_FUNCS', []))
  return sorted(fs)


def find_func(tree, qualname):
  cur = tree
  for p in qualname.split('.'):
    nxt = None
    for n in cur.body:
      if isinstance(n, (ast.FunctionDef, ast.ClassDef)) and n.name == p:
        nxt = n
    if nxt is None:
      return None
    cur = nxt
  return cur if isinstance(cur, ast.FunctionDef) else None


def offsets(src):
  out, pos = [0], 0
  for line in src.split('\n'):
    pos += len(line) + 1
    out.append(pos)
  return out


def gen_mutants(file, qualnames):
  src = open(os.path.join(REPO, file), encoding='utf-8').read()
  tree = ast.parse(src)
  off = offsets(src)
  # ast column offsets are in utf-8 bytes; the library sources are ascii in the places touched
  def at(l, c):
    return off[l - 1] + c
  muts = []
  seen = set()
  for q in qualnames:
    fn = find_func(tree, q)
    if fn is None:
      continue
    for n in ast.walk(fn):
      if isinstance(n, ast.Compare):
        ops = [n.left] + list(n.comparators)
        for (a, o, b) in zip(ops, n.ops, ops[1:]):
          repl = {ast.Lt: '<=', ast.LtE: '<', ast.Gt: '>=', ast.GtE: '>'}.get(type(o))
          if repl is None:
            continue
          s, e = at(a.end_lineno, a.end_col_offset), at(b.lineno, b.col_offset)
          seg = src[s:e]
          old = {ast.Lt: '<', ast.LtE: '<=', ast.Gt: '>', ast.GtE: '>='}[type(o)]
          if seg.count(old) != 1 or (old in ('<', '>') and (old + '=') in seg):
            continue
          new = src[:s] + seg.replace(old, repl) + src[e:]
          muts.append((q, a.end_lineno, 'comparison %s -> %s' % (old, repl), new))
      elif isinstance(n, ast.Constant) and isinstance(n.value, int) and not isinstance(n.value, bool) and 0 <= n.value <= 128:
        s, e = at(n.lineno, n.col_offset), at(n.end_lineno, n.end_col_offset)
        if src[s:e] != str(n.value):
          continue
        for d in (1, -1):
          if n.value + d < 0:
            continue
          muts.append((q, n.lineno, 'constant %d -> %d' % (n.value, n.value + d), src[:s] + str(n.value + d) + src[e:]))
      elif isinstance(n, ast.Call) and isinstance(n.func, ast.Name) and n.func.id in ('min', 'max'):
        s, e = at(n.func.lineno, n.func.col_offset), at(n.func.end_lineno, n.func.end_col_offset)
        other = 'max' if n.func.id == 'min' else 'min'
        muts.append((q, n.lineno, '%s -> %s' % (n.func.id, other), src[:s] + other + src[e:]))
      elif isinstance(n, ast.BoolOp) and len(n.values) == 2:
        a, b = n.values
        s, e = at(a.end_lineno, a.end_col_offset), at(b.lineno, b.col_offset)
        seg = src[s:e]
        old = 'and' if isinstance(n.op, ast.And) else 'or'
        if seg.count(' %s' % old) == 1 or seg.count('%s ' % old) == 1:
          new = 'or' if old == 'and' else 'and'
          if seg.count(old) == 1:
            muts.append((q, a.end_lineno, '%s -> %s' % (old, new), src[:s] + seg.replace(old, new) + src[e:]))
  out = []
  for q, line, what, new in muts:
    if new in seen or new == src:
      continue
    try:
      ast.parse(new)
    except SyntaxError:
      continue
    seen.add(new)
    out.append({'file': file, 'function': q, 'line': line, 'what': what, 'source': new})
  return out


def demos_for(prop):
  """Demonstrations that check the property as stated and carry no recorded output digest (a digest fails on ANY change of
  behaviour, also outside the property): those delivered with the harmless refactorings first, then those delivered with
  breaking changes (they pass on the unchanged library too, but are narrower).  Falls back to digest-carrying ones."""
  def digestless(p):
    s = open(p, encoding='utf-8').read()
    return 'hashlib' not in s and 'sha256' not in s
  plain, narrow, dig = [], [], []
  for kind, acc in (('harmless', plain), ('seeded', narrow)):
    base = os.path.join(VERIF, kind)
    for d in sorted(os.listdir(base), reverse=True):
      p = os.path.join(base, d, 'demo.py')
      if d.startswith(prop + '_') and os.path.isfile(p):
        (acc if digestless(p) else dig).append(p)
  out = plain[:3]
  if len(out) < 3:
    out += narrow[:4 - len(out)]
  return out or dig[:2]


def stable_pass():
  return set(json.load(open('/root/.vp/BASELINE.json'))['stable_pass'])


def run_suite(wt):
  junit = os.path.join(wt, '_junit.xml')
  subprocess.run([PY, '-m', 'pytest', '-q', '-p', 'no:cacheprovider', '--timeout=900', '--continue-on-collection-errors', '--junitxml=' + junit],
                 cwd=wt, capture_output=True, text=True, timeout=3000)
  ok = set()
  if os.path.exists(junit):
    for tc in ET.parse(junit).getroot().iter('testcase'):
      if not any(ch.tag in ('failure', 'error', 'skipped') for ch in tc):
        ok.add('%s::%s' % (tc.get('classname'), tc.get('name')))
    os.remove(junit)
  return ok


def evaluate(args):
  prop, m, wt, demos = args
  path = os.path.join(wt, m['file'])
  orig = open(path, encoding='utf-8').read()
  res = {'demo': 'pass', 'suite': None, 'check': None}
  try:
    open(path, 'w', encoding='utf-8').write(m['source'])
    for d in demos:
      try:
        r = subprocess.run([PY, d], cwd=wt, env=dict(os.environ, PYTHONPATH=wt), capture_output=True, text=True, timeout=240)
        rc = r.returncode
      except subprocess.TimeoutExpired:
        rc = 99
      if rc != 0:
        res['demo'] = 'FAIL (%s, exit %s)' % (os.path.basename(os.path.dirname(d)), rc)
        break
    if res['demo'] != 'pass':
      lost = sorted(stable_pass() - run_suite(wt))
      res['suite'] = 'unchanged' if not lost else 'breaks %d tests' % len(lost)
  finally:
    open(path, 'w', encoding='utf-8').write(orig)
  if res['demo'] != 'pass' and res['suite'] == 'unchanged':
    from sa import framework
    from sa.loader import AnalysisError
    try:
      ctx = framework.run_rules(prop, 'quick', overlay={m['file']: m['source']})
      keys = sorted(set(o.rule for o in ctx.obligations if o.status == 'violation'))
      und = sorted(set(o.rule for o in ctx.obligations if o.status == 'undecided'))
      res['check'] = ('reported: ' + ', '.join(keys)) if keys else (('cannot decide: ' + ', '.join(und)) if und else 'silent')
    except AnalysisError as e:
      res['check'] = 'cannot decide: ' + str(e)[:160]
    except Exception as e:
      res['check'] = 'internal error: %s' % e
  return res


def main():
  prop = sys.argv[1]
  mx = int(sys.argv[sys.argv.index('--max') + 1]) if '--max' in sys.argv else 400
  jobs = int(sys.argv[sys.argv.index('--jobs') + 1]) if '--jobs' in sys.argv else 12
  demos = demos_for(prop)
  if not demos:
    print('no demonstrations for', prop)
    return 2
  by_file = {}
  for f, q in owners(prop):
    by_file.setdefault(f, []).append(q)
  muts = []
  for f, qs in sorted(by_file.items()):
    muts.extend(gen_mutants(f, qs))
  import random
  random.Random(20261002).shuffle(muts)      # a fixed sample across all owning functions, not the first mx in file order
  muts = muts[:mx]
  print('%s: %d mutants in %d functions, demonstrations %s' % (prop, len(muts), sum(len(v) for v in by_file.values()), [os.path.basename(os.path.dirname(d)) for d in demos]))
  wts = []
  for k in range(jobs):
    wt = tempfile.mkdtemp(prefix='mw_%s_%d_' % (prop, k), dir='/tmp')
    os.rmdir(wt)
    subprocess.run(['git', '-C', REPO, 'worktree', 'add', '-q', '--detach', wt, 'HEAD'], check=True)
    wts.append(wt)
  rows = []
  try:
    # one mutant at a time per worktree
    with concurrent.futures.ThreadPoolExecutor(max_workers=jobs) as ex:
      free = list(wts)
      import threading
      lock = threading.Lock()

      def task(m):
        with lock:
          wt = free.pop()
        try:
          with concurrent.futures.ProcessPoolExecutor(max_workers=1) as px:
            return m, px.submit(evaluate, (prop, m, wt, demos)).result()
        finally:
          with lock:
            free.append(wt)
      for m, res in ex.map(task, muts):
        row = {k: v for k, v in m.items() if k != 'source'}
        row.update(res)
        rows.append(row)
  finally:
    for wt in wts:
      subprocess.run(['git', '-C', REPO, 'worktree', 'remove', '--force', wt], capture_output=True)
      shutil.rmtree(wt, ignore_errors=True)
  breaking = [r for r in rows if r['demo'] != 'pass' and r['suite'] == 'unchanged']
  summary = {'property': prop, 'mutants': len(rows), 'demonstration_fails': sum(1 for r in rows if r['demo'] != 'pass'),
             'property_breaking_and_suite_unchanged': len(breaking),
             'reported': sum(1 for r in breaking if (r['check'] or '').startswith('reported')),
             'cannot_decide': sum(1 for r in breaking if (r['check'] or '').startswith('cannot decide')),
             'silent': sum(1 for r in breaking if r['check'] == 'silent')}
  json.dump({'summary': summary, 'breaking': breaking, 'all': rows}, open(os.path.join(VERIF, 'mutation', prop + '.json'), 'w'), indent=1)
  print(json.dumps(summary))
  for r in breaking:
    if not (r['check'] or '').startswith('reported'):
      print('  NOT REPORTED %s:%s %s [%s] -> %s' % (r['file'], r['line'], r['what'], r['function'], (r['check'] or '')[:120]))
  return 0


if __name__ == '__main__':
  sys.exit(main())
