#!/venv/bin/python
"""tools/gen_reference.py - record the statement signatures of every function of /repo as it is now in
reference/signatures.json (with the /repo commit).  Run after the rules have been confirmed on a new /repo
commit (e.g. after a fix: commit).  Maintenance tool; checks only read the file."""
import json, os, subprocess, sys
os.environ['VERIF_NO_INLINE'] = '1'     # record the functions exactly as written
VERIF = os.path.dirname(os.path.dirname(os.path.abspath(__file__)))
sys.path.insert(0, VERIF)
from sa.loader import Program
from sa import reference
P = Program()
sig = reference.build(P)
commit = subprocess.run(['git', '-C', '/repo', 'rev-parse', 'HEAD'], capture_output=True, text=True).stdout.strip()
os.makedirs(os.path.dirname(reference.REF_FILE), exist_ok=True)
json.dump({'repo_commit': commit, 'functions': sig, 'locals': reference.build_locals(P)}, open(reference.REF_FILE, 'w'), indent=0, sort_keys=True)
print('%d functions recorded at %s' % (len(sig), commit[:8]))
