"""Writes the round-N briefs for the fresh sub-agents that deliver seeded changes (see DESIGN.md 10.6).

usage: gen_prompts.py <round> <harmless-letter> <breaking-letter-1> <breaking-letter-2> [outdir]
A brief names only the property text (/tmp/props/<id>.txt) and the agent's own scratch worktree (/tmp/wt<round>_<id>), and lists
the first lines of what was already delivered for that property so that the new changes differ.  Nothing of /verif is shown."""
import glob
import json
import os
import sys

VERIF = os.path.dirname(os.path.dirname(os.path.abspath(__file__)))
TEMPLATE = '''You are helping test a verification effort for the Python library magenta/note-seq. Work ONLY inside the scratch git worktree {wt} (a checkout of the library; the package is in {wt}/note_seq). Do NOT read or touch /verif or /repo; do not look outside the worktree except for the Python interpreter and the property file named below. NEVER use `git stash` (the stash is shared with sibling worktrees of other people); to toggle a change use `git diff > file`, `git apply file`, `git apply -R file`, `git checkout -- note_seq`.

Read the property in /tmp/props/{pid}.txt and find the library code that implements it. Produce THREE code changes to the library (each on its own, not combined, each touching exactly one library file), all of which keep the library importable and keep the existing test suite passing exactly as before:

(A) ONE BEHAVIOUR-PRESERVING REFACTORING of code the property depends on: a clean-up a maintainer could make, 8-40 changed lines, at the heart of the property's implementation, as DIFFERENT IN FORM from the existing code as you safely can while staying exactly equivalent (change a data representation; move a guard into a helper or inline one; early returns / conditional expressions / dispatch tables; compute from an equal twin; divmod / enumerate / zip / itertools / comprehensions / generators / walrus / any / all / reduce; De Morgan and other algebraic identities; while <-> for; merge two passes into one or split one; rename everything). The property MUST STILL HOLD for every input afterwards. Deliver it as harmless_{hl}/.

(B) TWO BREAKING CHANGES, in two different functions (and not the function of (A)), each of which keeps the test suite passing but breaks the property for some inputs - preferably inputs that need something specific (an unusual feature, a boundary value, a particular argument combination or order of operations):
  - seed_{b1}/ : a change that LOOKS like one of the refactorings of (A) (8-30 changed lines, restructured code, not a one-token edit) but is subtly NOT equivalent - the kind of slip a careful person makes while restructuring (a guard that moved past a statement it used to protect, a helper that captured the wrong variable, a comprehension that dropped a case, a merged loop that changed which value is current, an identity that does not hold at a boundary, a default that changed on the way through a new signature);
  - seed_{b2}/ : a SMALL edit (1-5 changed lines) of the kind that slips through code review while someone "fixes" or "extends" something nearby: the wrong one of two similar variables or fields, an off-by-one in a bound or range, swapped arguments, a changed default, a condition that is wrong for one case only, a missing reset/update of a piece of state, an exception class or guard that no longer covers a case, a copy that became an alias. Give it a plausible motive in notes.txt.

How to run things (no network; use exactly this interpreter):
- Tests: `cd {wt} && /venv/bin/python -m pytest -q -p no:cacheprovider note_seq 2>&1 | tail -20` (about 15 seconds). On the UNCHANGED tree the whole suite has 321 passing and 11 failing tests (the 11 fail for environmental reasons). Record the per-test pass/fail set BEFORE (e.g. with -rA) and make sure it is identical AFTER each change.
- Scripts: `cd {wt} && PYTHONPATH={wt} /venv/bin/python demo.py` so that `import note_seq` resolves to the worktree (verify with `print(note_seq.__file__)`). Demos must create any input files they need themselves (in a temporary directory).

For each of the three changes deliver, in its directory under {wt}/ :
- patch.diff : `git diff` of the change against the worktree HEAD (library files only, exactly one library file), applicable with `git apply` from the repo root;
- demo.py : a self-contained program that checks the property as stated (not an implementation detail) on a good spread of inputs and finishes within a minute. For seed_{b1}/ and seed_{b2}/ it exits 0 and prints PASS on the unchanged library and exits 1 and prints FAIL (with the offending values) when the change is applied. For harmless_{hl}/ it must exit 0 and print PASS both on the unchanged library AND with the change applied (it is your evidence that the refactoring preserves the property; make it thorough around the code you touched, and where you can also print a digest of many outputs so that the two runs can be compared);
- notes.txt : 3-6 lines: what the change is; for breaking changes why it breaks the property and a paragraph starting "Needed to manifest:" saying what specific input is needed; for harmless ones a short argument why it is equivalent; which tests you ran with their before/after results.
Many changes have already been delivered for this property by other people (listed below). Do NOT repeat them or close variants: choose functions, clauses of the property and kinds of defect that are NOT in the list (the property has several clauses and several functions behind it; also consider argument combinations, defaults, less-used code paths, helper functions, class hierarchies, module-level tables and sibling implementations that the listed changes never touched):
{listing}

After producing each patch, `git checkout -- note_seq` to restore the tree before making the next one, and leave the worktree clean (apart from the three directories) at the end. In your final answer summarise the three changes in a few lines each.
'''


def first_line(notes):
  t = ' '.join((notes or '').split())
  return t[:230]


def breaking_only(t):
  """The brief without part (A): two breaking changes only (round 14, a short round)."""
  a = t.index('(A) ONE BEHAVIOUR-PRESERVING')
  b = t.index('(B) TWO BREAKING CHANGES')
  t = t[:a] + t[b:]
  t = t.replace('Produce THREE code changes', 'Produce TWO code changes').replace('(and not the function of (A))', '')
  t = t.replace('a change that LOOKS like one of the refactorings of (A)', 'a change that LOOKS like a behaviour-preserving clean-up a maintainer could make')
  t = t.replace('For each of the three changes deliver', 'For each of the two changes deliver').replace('apart from the three directories', 'apart from the two directories')
  t = t.replace('summarise the three changes', 'summarise the two changes')
  h = t.index(' For harmless_{hl}/ it must')
  t = t[:h] + t[t.index(';', t.index('the two runs can be compared')):]
  t = t.replace(' for harmless ones a short argument why it is equivalent;', '')
  return t


def main():
  argv = [a for a in sys.argv if a != '--breaking-only']
  global TEMPLATE
  if len(argv) != len(sys.argv):
    TEMPLATE = breaking_only(TEMPLATE)
  sys.argv = argv
  rnd, hl, b1, b2 = sys.argv[1:5]
  out = sys.argv[5] if len(sys.argv) > 5 else '/tmp/prompts'
  os.makedirs(out, exist_ok=True)
  props = [json.loads(l) for l in open(os.path.join(VERIF, 'properties.jsonl'))]
  na = set(x['property_id'] for x in json.load(open(os.path.join(VERIF, 'MANIFEST.json'))).get('not_applicable', []))
  for p in props:
    pid = p['id']
    if pid in na:
      continue
    lines = []
    for kind, tag in (('seeded', ''), ('harmless', '(refactoring) ')):
      for d in sorted(glob.glob(os.path.join(VERIF, kind, pid + '_*'))):
        try:
          m = json.load(open(os.path.join(d, 'meta.json')))
        except (OSError, ValueError):
          continue
        lines.append('- %s%s' % (tag, first_line(m.get('notes'))))
    wt = '/tmp/wt%s_%s' % (rnd, pid)
    with open(os.path.join(out, 'r%s_%s.txt' % (rnd, pid)), 'w') as f:
      f.write(TEMPLATE.format(wt=wt, pid=pid, hl=hl, b1=b1, b2=b2, listing='\n'.join(lines)))
  print('wrote briefs for round', rnd, 'to', out)


if __name__ == '__main__':
  main()
