#!/venv/bin/python
"""tools/seed_ingest.py <seed dir with patch.diff, demo.py, notes.txt> <property id> <seed id>

Confirms a seeded change independently of whoever wrote it, in a fresh scratch
worktree of /repo under /tmp (removed afterwards):
  1. the patch applies and the package still imports;
  2. demo.py passes on the unchanged tree and fails with the patch;
  3. the pinned suite's stable-pass set (BASELINE.json) still passes with the patch.
If all three hold the change is copied to /verif/seeded/<seed id>/ with meta.json,
then the registered checks are run against it (tools/seed_eval.py: git apply in
/repo, checks, git checkout) and the outcome is recorded in meta.json."""
import json
import os
import shutil
import subprocess
import sys
import tempfile
import xml.etree.ElementTree as ET

VERIF = os.path.dirname(os.path.dirname(os.path.abspath(__file__)))
PY = '/venv/bin/python'


def sh(cmd, cwd=None, env=None, timeout=1200):
  return subprocess.run(cmd, cwd=cwd, env=env, capture_output=True, text=True, timeout=timeout)


def run_demo(wt, demo):
  env = dict(os.environ, PYTHONPATH=wt)
  return sh([PY, demo], cwd=wt, env=env, timeout=600)


def passing_tests(wt):
  junit = os.path.join(wt, '_junit.xml')
  sh([PY, '-m', 'pytest', '-q', '-p', 'no:cacheprovider', '--timeout=900', '--continue-on-collection-errors', '--junitxml=' + junit], cwd=wt, timeout=3000)
  out = set()
  if not os.path.exists(junit):
    return out
  for tc in ET.parse(junit).getroot().iter('testcase'):
    if not any(ch.tag in ('failure', 'error', 'skipped') for ch in tc):
      out.add('%s::%s' % (tc.get('classname'), tc.get('name')))
  os.remove(junit)
  return out


def main():
  src, prop, sid = sys.argv[1], sys.argv[2], sys.argv[3]
  harmless = '--harmless' in sys.argv    # a behaviour-preserving refactoring: the demonstration must pass with the change too
  kind_dir = 'harmless' if harmless else 'seeded'
  patch = os.path.join(src, 'patch.diff')
  demo = os.path.join(src, 'demo.py')
  notes = open(os.path.join(src, 'notes.txt')).read() if os.path.exists(os.path.join(src, 'notes.txt')) else ''
  base = json.load(open('/root/.vp/BASELINE.json'))
  stable = set(base['stable_pass'])
  wt = tempfile.mkdtemp(prefix='seedchk_', dir='/tmp')
  os.rmdir(wt)
  r = sh(['git', '-C', '/repo', 'worktree', 'add', '-q', '--detach', wt, 'HEAD'])
  if r.returncode != 0:
    print('cannot create worktree: ' + r.stderr)
    return 2
  import re
  paras = [p_ for p_ in re.split(r'\n+', notes) if re.match(r'(?i)\s*(what is needed|needed|input needed|what it needs)', p_)] or \
      [p_ for p_ in re.split(r'\n+', notes) if re.search(r'(?i)need|manifest', p_)] or ['(see notes)']
  meta = {'seed': sid, 'property': prop, 'kind': 'harmless refactoring (the property still holds)' if '--harmless' in sys.argv else 'breaking change', 'needs_to_manifest': paras[0].strip(), 'ran': [],
          'confirmed_in': 'a fresh scratch git worktree of /repo under /tmp (tools/seed_ingest.py), removed afterwards', 'notes': notes.strip()}
  ok = True
  try:
    shutil.copy(demo, os.path.join(wt, '_demo.py'))
    d0 = run_demo(wt, '_demo.py')
    meta['ran'].append('demo on unchanged tree: exit %d' % d0.returncode)
    if d0.returncode != 0:
      print('REJECT: demo fails on the unchanged tree\n' + (d0.stdout + d0.stderr)[-600:])
      ok = False
    r = sh(['git', 'apply', patch], cwd=wt)
    if r.returncode != 0:
      # /repo may have moved on (fix: commits) since the change was written: try a 3-way merge of the hunks
      r = sh(['git', 'apply', '--3way', patch], cwd=wt)
      if r.returncode == 0:
        sh(['git', 'reset', '-q'], cwd=wt)
        rediff = sh(['git', 'diff'], cwd=wt).stdout
        patch = os.path.join(wt, '_rebased.diff')
        open(patch, 'w').write(rediff)
        meta['ran'].append('patch re-based onto the current /repo HEAD with git apply --3way')
    if r.returncode != 0:
      print('REJECT: patch does not apply: ' + r.stderr)
      ok = False
    touched = [l[6:] for l in open(patch).read().splitlines() if l.startswith('+++ b/')]
    if ok and (len(touched) != 1 or not touched[0].startswith('note_seq/') or touched[0].endswith('_test.py')):
      print('REJECT: the change must touch exactly one library file, touches %s' % touched)
      ok = False
    if ok:
      body = sorted(l for l in open(patch).read().splitlines() if l[:1] in '+-' and not l.startswith(('+++', '---')))
      for other in sorted(os.listdir(os.path.join(VERIF, kind_dir))) if os.path.isdir(os.path.join(VERIF, kind_dir)) else []:
        op = os.path.join(VERIF, kind_dir, other, 'patch.diff')
        if other != sid and os.path.isfile(op):
          if sorted(l for l in open(op).read().splitlines() if l[:1] in '+-' and not l.startswith(('+++', '---'))) == body:
            print('DUPLICATE: same edit as %s/%s; not kept' % (kind_dir, other))
            ok = False
            break
    if ok:
      imp = sh([PY, '-c', 'import note_seq, sys; print(note_seq.__file__)'], cwd=wt, env=dict(os.environ, PYTHONPATH=wt))
      if imp.returncode != 0 or wt not in imp.stdout:
        print('REJECT: package does not import with the patch: ' + imp.stderr[-400:])
        ok = False
    if ok:
      d1 = run_demo(wt, '_demo.py')
      meta['ran'].append('demo with the change: exit %d' % d1.returncode)
      meta['demo_output_with_change'] = (d1.stdout + d1.stderr)[-800:]
      if d1.returncode == 0 and not harmless:
        print('REJECT: demo still passes with the change')
        ok = False
      if d1.returncode != 0 and harmless:
        print('REJECT: the property demonstration fails with the supposedly harmless change\n' + (d1.stdout + d1.stderr)[-600:])
        ok = False
    if ok:
      passed = passing_tests(wt)
      lost = sorted(stable - passed)
      meta['ran'].append('pinned suite with the change: %d of %d stable-pass tests pass' % (len(stable & passed), len(stable)))
      if lost:
        print('REJECT: the change breaks %d stable-pass tests, e.g. %s' % (len(lost), lost[:3]))
        ok = False
    if ok:
      kept_patch = open(patch).read()
  finally:
    sh(['git', '-C', '/repo', 'worktree', 'remove', '--force', wt])
    shutil.rmtree(wt, ignore_errors=True)
  if not ok:
    return 1
  dst = os.path.join(VERIF, kind_dir, sid)
  os.makedirs(dst, exist_ok=True)
  open(os.path.join(dst, 'patch.diff'), 'w').write(kept_patch)
  shutil.copy(demo, os.path.join(dst, 'demo.py'))
  if '--no-eval' in sys.argv:
    json.dump(meta, open(os.path.join(dst, 'meta.json'), 'w'), indent=1)
    print('ACCEPTED %s (property %s); not evaluated (run tools/seed_matrix.py)' % (sid, prop))
    return 0
  ev = sh([PY, os.path.join(VERIF, 'tools', 'seed_eval.py'), os.path.join(dst, 'patch.diff')], timeout=3000)
  print(ev.stdout[-1500:])
  caught = [l.split(':', 1)[1].strip() for l in ev.stdout.splitlines() if l.startswith('CAUGHT-BY:')]
  meta['checks_run'] = './check <id> --tier quick for every registered property, with the patch applied to /repo (git apply) and undone afterwards (git checkout -- .)'
  meta['caught_by'] = [c for c in (caught[0].split(',') if caught else []) if c and c != '-']
  meta['check_output'] = [l for l in ev.stdout.splitlines() if l[:1] == 'C' and 'exit=' in l]
  json.dump(meta, open(os.path.join(dst, 'meta.json'), 'w'), indent=1)
  print('ACCEPTED %s (property %s); caught by: %s' % (sid, prop, meta['caught_by'] or 'NOTHING'))
  return 0


if __name__ == '__main__':
  sys.exit(main())
