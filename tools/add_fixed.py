#!/venv/bin/python
"""tools/add_fixed.py <property[,property]> <commit> <finding id> <what failed>  - append a 'fixed' entry (maintenance only; checks never write this file)."""
import json, os, sys
p = os.path.join(os.path.dirname(os.path.dirname(os.path.abspath(__file__))), 'known_findings.json')
d = json.load(open(p))
props, commit, fid, what = sys.argv[1], sys.argv[2], sys.argv[3], sys.argv[4]
for prop in props.split(','):
  d['fixed'].append({'property': prop, 'commit': commit, 'finding': fid, 'what': what,
                     'line': 'fixed: property=%s %s %s' % (prop, commit, what)})
json.dump(d, open(p, 'w'), indent=1)
open(p, 'a').write('\n')
