#!/venv/bin/python
"""tools/seed_matrix.py [--tier quick] [seed ids...]

Re-evaluates every confirmed seeded change under /verif/seeded/ against the
registered checks as they are now: the change is applied to /repo (git apply),
all checks run (in parallel), /repo is restored (git checkout -- .) even on
failure, and seeded/<id>/meta.json is updated.  Prints the catch matrix and
writes it to seeded/MATRIX.md.  Maintenance tool: it is not a check."""
import concurrent.futures
import atexit
import json
import shutil
import os
import subprocess
import sys

VERIF = os.path.dirname(os.path.dirname(os.path.abspath(__file__)))
REPO = '/repo'
import tempfile
_SCRATCH = tempfile.mkdtemp(prefix='seedout_', dir='/tmp')
atexit.register(shutil.rmtree, _SCRATCH, True)
SCRATCH_ENV = dict(os.environ, VERIF_EVIDENCE_DIR=_SCRATCH, VERIF_REPLAY_DIR=_SCRATCH)


def run_check(args):
  pid, tier = args
  p = subprocess.run([os.path.join(VERIF, 'check'), pid, '--tier', tier], cwd=VERIF, capture_output=True, text=True, env=SCRATCH_ENV)
  rules = sorted(set(l.split('rule=')[1].split(' ')[0] for l in p.stdout.splitlines() if l.startswith('FINDING ')))
  err = [l[:200] for l in p.stdout.splitlines() if l.startswith('ANALYSIS-ERROR')][:1]
  return pid, p.returncode, rules, err


def main():
  tier = 'quick'
  argv = sys.argv[1:]
  if '--tier' in argv:
    i = argv.index('--tier')
    tier = argv[i + 1]
    del argv[i:i + 2]
  man = json.load(open(os.path.join(VERIF, 'MANIFEST.json')))
  ids = [c['property_id'] for c in man['checks']]
  if '--no-gate' in argv:
    argv.remove('--no-gate')
    SCRATCH_ENV['VERIF_NO_GATE'] = '1'
    SCRATCH_ENV['VERIF_MATRIX_DRY'] = '1'
  harmless = '--harmless' in argv
  if harmless:
    argv.remove('--harmless')
  sdir = os.path.join(VERIF, 'harmless' if harmless else 'seeded')
  seeds = sorted(d for d in os.listdir(sdir) if os.path.isfile(os.path.join(sdir, d, 'patch.diff')) and (not argv or d in argv))
  st = subprocess.run(['git', '-C', REPO, 'status', '--porcelain'], capture_output=True, text=True).stdout.strip()
  if st:
    print('refusing: /repo has uncommitted changes:\n' + st)
    return 2
  rows = []
  with concurrent.futures.ProcessPoolExecutor(max_workers=16) as ex:
    for sd in seeds:
      patch = os.path.join(sdir, sd, 'patch.diff')
      r = subprocess.run(['git', '-C', REPO, 'apply', patch], capture_output=True, text=True)
      if r.returncode != 0:
        print('%s: patch does not apply: %s' % (sd, r.stderr.strip()))
        continue
      try:
        res = list(ex.map(run_check, [(pid, tier) for pid in ids]))
      finally:
        subprocess.run(['git', '-C', REPO, 'checkout', '--', '.'])
      caught = {pid: rules for (pid, rc, rules, err) in res if rc == 1}
      broken = {pid: err for (pid, rc, rules, err) in res if rc == 2}
      mp = os.path.join(sdir, sd, 'meta.json')
      meta = json.load(open(mp)) if os.path.exists(mp) else {'seed': sd}
      meta['checks_run'] = './check <id> --tier %s for every registered property, with the patch applied to /repo (git apply) and undone afterwards (git checkout -- .)' % tier
      meta['caught_by'] = sorted(caught)
      meta['rules_reporting'] = {k: v for k, v in sorted(caught.items())}
      meta['analysis_errors'] = {k: v for k, v in sorted(broken.items())}
      meta.pop('check_output', None)
      if not SCRATCH_ENV.get('VERIF_MATRIX_DRY'):
        json.dump(meta, open(mp, 'w'), indent=1)
      own = meta.get('property')
      rows.append((sd, own, caught, broken))
      print('%-7s own=%s caught-by=%s%s' % (sd, own, ','.join('%s[%s]' % (k, ' '.join(v)) for k, v in sorted(caught.items())) or '-',
                                             ('  ANALYSIS-ERROR in ' + ','.join(sorted(broken))) if broken else ''))
  with open(os.path.join(sdir, 'MATRIX.md') if not SCRATCH_ENV.get('VERIF_MATRIX_DRY') else os.devnull, 'w') as f:
    f.write('| seeded change | aimed at | caught by (rules reporting) | own check catches it |\n|---|---|---|---|\n')
    for sd, own, caught, broken in rows:
      f.write('| %s | %s | %s | %s |\n' % (sd, own, '; '.join('%s: %s' % (k, ', '.join(v)) for k, v in sorted(caught.items())) or 'nothing' +
                                          (' (analysis error in %s)' % ','.join(sorted(broken)) if broken else ''), 'yes' if own in caught else 'no'))
  if harmless:
    alarms = [(sd, sorted(caught)) for sd, own, caught, broken in rows if caught]
    undec = [(sd, sorted(broken)) for sd, own, caught, broken in rows if broken and not caught]
    print('\n%d harmless refactorings: %d silent, %d FALSE ALARMS %s, %d analysis errors %s' % (
        len(rows), sum(1 for r in rows if not r[2] and not r[3]), len(alarms), alarms, len(undec), undec))
    return 0
  missed = [sd for sd, own, caught, broken in rows if not caught]
  print('\n%d seeds, %d caught by the check of their own property, %d by another check only, %d missed: %s' % (
      len(rows), sum(1 for r in rows if r[1] in r[2]), sum(1 for r in rows if r[2] and r[1] not in r[2]), len(missed), missed))
  return 0


if __name__ == '__main__':
  sys.exit(main())
