#!/venv/bin/python
"""tools/seed_eval.py <patch.diff> [--props C01,C02] [--tier quick]

Applies a seeded change to /repo (git apply), runs the registered checks, prints
per-property exit codes and the reported rules, and restores /repo
(git checkout -- .) even on failure.  Maintenance tool: it is not a check."""
import atexit
import json
import shutil
import os
import subprocess
import sys

VERIF = os.path.dirname(os.path.dirname(os.path.abspath(__file__)))
REPO = '/repo'
import tempfile
_SCRATCH = tempfile.mkdtemp(prefix='seedout_', dir='/tmp')
atexit.register(shutil.rmtree, _SCRATCH, True)
SCRATCH_ENV = dict(os.environ, VERIF_EVIDENCE_DIR=_SCRATCH, VERIF_REPLAY_DIR=_SCRATCH)


def main():
  patch = os.path.abspath(sys.argv[1])
  props = None
  tier = 'quick'
  if '--props' in sys.argv:
    props = sys.argv[sys.argv.index('--props') + 1].split(',')
  if '--tier' in sys.argv:
    tier = sys.argv[sys.argv.index('--tier') + 1]
  man = json.load(open(os.path.join(VERIF, 'MANIFEST.json')))
  ids = [c['property_id'] for c in man['checks']]
  if props:
    ids = [i for i in ids if i in props]
  st = subprocess.run(['git', '-C', REPO, 'status', '--porcelain'], capture_output=True, text=True).stdout.strip()
  if st:
    print('refusing: /repo has uncommitted changes:\n' + st)
    return 2
  r = subprocess.run(['git', '-C', REPO, 'apply', patch], capture_output=True, text=True)
  if r.returncode != 0:
    print('patch does not apply: ' + r.stderr)
    return 2
  out = {}
  try:
    for pid in ids:
      p = subprocess.run([os.path.join(VERIF, 'check'), pid, '--tier', tier], cwd=VERIF, capture_output=True, text=True, env=SCRATCH_ENV)
      rules = sorted(set(l.split('rule=')[1].split(' ')[0] for l in p.stdout.splitlines() if l.startswith('FINDING ')))
      err = [l for l in p.stdout.splitlines() if l.startswith('ANALYSIS-ERROR')]
      out[pid] = (p.returncode, rules, err[:1])
  finally:
    subprocess.run(['git', '-C', REPO, 'checkout', '--', '.'])
  caught = [pid for pid, (rc, _r, _e) in out.items() if rc == 1]
  broken = [pid for pid, (rc, _r, _e) in out.items() if rc == 2]
  for pid, (rc, rules, err) in sorted(out.items()):
    if rc != 0:
      print('%s exit=%d %s %s' % (pid, rc, rules, err))
  print('CAUGHT-BY: %s' % (','.join(caught) or '-'))
  if broken:
    print('ANALYSIS-ERROR-IN: %s' % ','.join(broken))
  return 0


if __name__ == '__main__':
  sys.exit(main())
