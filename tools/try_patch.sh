#!/bin/sh
# tools/try_patch.sh <patch.diff> [props...] : apply the patch to the scratch worktree /tmp/devrepo (never /repo),
# run the quick checks against it (VERIF_REPO), restore.  Maintenance tool.
P=$1; shift
PROPS=${*:-"C01 C02 C03 C04 C05 C06 C07 C08 C09 C10 C11 C12 C13 C14 C15 C16 C17 C18 C20"}
cd /tmp/devrepo && git checkout -q -- . && git apply "$P" || { echo "patch does not apply"; exit 2; }
cd /verif
D=$(mktemp -d /tmp/tryout_XXXX)
for p in $PROPS; do
  VERIF_REPO=/tmp/devrepo VERIF_EVIDENCE_DIR=$D VERIF_REPLAY_DIR=$D ./check $p > $D/$p.txt 2>&1; rc=$?
  [ $rc -ne 0 ] && { echo "$p exit=$rc"; grep "^FINDING\|ANALYSIS-ERROR" $D/$p.txt | cut -c1-260 | head -4; grep "why:" $D/$p.txt | head -3 | cut -c1-300; }
done
rm -rf $D; cd /tmp/devrepo && git checkout -q -- .
echo "tried $P"
