#!/venv/bin/python
"""tools/mutation_recheck.py <property> [...]

Re-evaluates, in memory (overlay, nothing is executed), the mutants that tools/mutation_sweep.py recorded as property-breaking with
the test suite unchanged, against the rules as they are now, and rewrites the verdicts in mutation/<P>.json.  Maintenance tool."""
import json
import os
import sys

VERIF = os.path.dirname(os.path.dirname(os.path.abspath(__file__)))
sys.path.insert(0, VERIF)
sys.path.insert(0, os.path.join(VERIF, 'tools'))
import mutation_sweep as MS      # noqa: E402


def main():
  from sa import framework
  from sa.loader import AnalysisError
  for prop in sys.argv[1:]:
    path = os.path.join(VERIF, 'mutation', prop + '.json')
    d = json.load(open(path))
    want = {}
    for r in d['breaking']:
      want.setdefault(r['file'], []).append(r)
    for f, rows in want.items():
      muts = MS.gen_mutants(f, sorted(set(r['function'] for r in rows)))
      idx = {}
      for m in muts:
        idx.setdefault((m['function'], m['line'], m['what']), []).append(m)
      for r in rows:
        cands = idx.get((r['function'], r['line'], r['what']), [])
        if not cands:
          r['check'] = 'mutant no longer generated (source changed)'
          continue
        verdicts = []
        for m in cands:
          try:
            ctx = framework.run_rules(prop, 'quick', overlay={m['file']: m['source']})
            keys = sorted(set(o.rule for o in ctx.obligations if o.status == 'violation'))
            und = sorted(set(o.rule for o in ctx.obligations if o.status == 'undecided'))
            verdicts.append(('reported: ' + ', '.join(keys)) if keys else (('cannot decide: ' + ', '.join(und)) if und else 'silent'))
          except AnalysisError as e:
            verdicts.append('cannot decide: ' + str(e)[:160])
          except Exception as e:      # pylint: disable=broad-except
            verdicts.append('internal error: %s' % e)
        # several mutants can share (function, line, kind): the weakest verdict among them is recorded
        rank = lambda v: 0 if v == 'silent' else (1 if v.startswith('cannot') or v.startswith('internal') else 2)
        r['check'] = sorted(verdicts, key=rank)[0]
    b = d['breaking']
    d['summary'].update(reported=sum(1 for r in b if (r['check'] or '').startswith('reported')),
                        cannot_decide=sum(1 for r in b if (r['check'] or '').startswith('cannot decide')),
                        silent=sum(1 for r in b if r['check'] == 'silent'))
    for r in d['all']:
      for x in b:
        if all(r.get(k) == x.get(k) for k in ('file', 'function', 'line', 'what', 'demo')):
          r['check'] = x['check']
    json.dump(d, open(path, 'w'), indent=1)
    print(json.dumps(d['summary']))
    for r in b:
      if not (r['check'] or '').startswith('reported'):
        print('  NOT REPORTED %s:%s %s [%s] -> %s' % (r['file'], r['line'], r['what'], r['function'], (r['check'] or '')[:120]))


if __name__ == '__main__':
  main()
