#!/venv/bin/python
"""tools/try_seed.py <id> [property] - analyse one kept patch (seeded/<id> or harmless/<id>) in memory with one property's
rules (default: the property it was aimed at) and print the verdict.  Nothing is written to /repo."""
import json, os, sys
VERIF = os.path.dirname(os.path.dirname(os.path.abspath(__file__)))
sys.path.insert(0, VERIF)
from sa import framework, selftest
from sa.loader import AnalysisError
sid = sys.argv[1]
d = os.path.join(VERIF, 'seeded', sid) if os.path.isdir(os.path.join(VERIF, 'seeded', sid)) else os.path.join(VERIF, 'harmless', sid)
prop = sys.argv[2] if len(sys.argv) > 2 else json.load(open(os.path.join(d, 'meta.json')))['property']
v = selftest.PatchVariant(sid, os.path.join(d, 'patch.diff'), 'fire')
ov = v.overlay()
if ov is None:
  print('patch does not apply in memory'); sys.exit(2)
try:
  ctx = framework.run_rules(prop, 'quick', overlay=ov)
except AnalysisError as e:
  print('%s on %s: UNDECIDED: %s' % (prop, sid, str(e)[:700])); sys.exit(2)
bad = [o for o in ctx.obligations if o.status == 'violation']
for o in bad[:12]:
  print('VIOLATION %s %s::%s  %s' % (o.rule, o.module, o.function, o.why[:200]))
print('%s on %s: %s' % (prop, sid, 'VIOLATION x%d' % len(bad) if bad else 'silent'))
